"""Translator for property C14: constants of the feature-mask machinery -> coq/Gen/FeatureConsts.v.
Sources: src/hb/ot_map.rs (MAX_BITS, MAX_VALUE, GLOBAL_BIT_SHIFT, first feature bit, flag constants),
src/hb/buffer.rs (glyph_flag::DEFINED), src/hb/common.rs (the global range 0..u32::MAX of is_global).
Every extracted CONSTANT has a shape guard; on mismatch the value becomes 0 and the guard is reported (tie
broken). The exact text of the modelled statements (allocation conditions, set_masks range test, Feature::new
arms, alternate index) is only recorded as `feat_stmt_shapes` (bit i = statement i still has the text the
model was written from): a refactoring that keeps the behaviour must not raise an alarm - behaviour is
what the correspondence checks - but the driver notes a changed statement in the evidence."""
import re

from tr_util import Gen, read


def _one(fails, name, src, pattern, conv=lambda m: int(m, 0), flags=0):
    m = re.findall(pattern, src, flags)
    if len(m) == 1:
        try:
            return conv(m[0])
        except Exception as ex:  # noqa
            fails.append((name, "cannot convert %r: %r" % (m[0], ex)))
            return 0
    fails.append((name, "pattern %r found %d times (expected exactly 1)" % (pattern, len(m))))
    return 0


def run(repo, fails):
    g = Gen("FeatureConsts")
    g.header("constants of user-feature mask allocation (C14), from src/hb/ot_map.rs, buffer.rs, common.rs")
    om = read(repo, "src/hb/ot_map.rs")
    bf = read(repo, "src/hb/buffer.rs")
    cm = read(repo, "src/hb/common.rs")
    alt = read(repo, "src/hb/ot/layout/GSUB/alternate_set.rs")

    max_bits = _one(fails, "feat_max_bits", om, r"pub const MAX_BITS: u32 = (\d+);")
    g.defN("feat_max_bits", max_bits)
    # MAX_VALUE = (1 << MAX_BITS) - 1
    ok = len(re.findall(r"pub const MAX_VALUE: u32 = \(1 << Self::MAX_BITS\) - 1;", om)) == 1
    if not ok:
        fails.append(("feat_max_value", "MAX_VALUE is not (1 << Self::MAX_BITS) - 1"))
    g.defN("feat_max_value", ((1 << max_bits) - 1) if ok and max_bits else 0)

    # GLOBAL_BIT_SHIFT = 8 * u32::SIZE - 1 ; GLOBAL_BIT_MASK = 1 << GLOBAL_BIT_SHIFT ; hb_mask_t = u32
    ok = (len(re.findall(r"const GLOBAL_BIT_SHIFT: u32 = 8 \* u32::SIZE as u32 - 1;", om)) == 1
          and len(re.findall(r"const GLOBAL_BIT_MASK: hb_mask_t = 1 << GLOBAL_BIT_SHIFT;", om)) == 1
          and len(re.findall(r"type hb_mask_t = u32;", read(repo, "src/hb/mod.rs"))) == 1)
    if not ok:
        fails.append(("feat_global_bit", "GLOBAL_BIT_SHIFT/GLOBAL_BIT_MASK/hb_mask_t do not have the expected shape"))
    g.defN("feat_global_bit", 31 if ok else 0)

    # first feature bit: glyph_flag::DEFINED.count_ones() + 1
    defined = _one(fails, "glyph_flag_defined", bf, r"pub const DEFINED: u32 = (0x[0-9A-Fa-f]+);")
    ok = len(re.findall(r"let mut next_bit = glyph_flag::DEFINED\.count_ones\(\) \+ 1;", om)) == 1
    if not ok:
        fails.append(("feat_first_bit", "next_bit is not initialised as glyph_flag::DEFINED.count_ones() + 1"))
    g.defN("glyph_flag_defined", defined)
    g.defN("feat_flag_bits", bin(defined).count("1") if defined else 0)
    g.defN("feat_first_bit", (bin(defined).count("1") + 1) if ok and defined else 0)

    # flags of hb_ot_map_feature_flags_t the allocation reads
    for nm in ("F_GLOBAL", "F_HAS_FALLBACK", "F_GLOBAL_SEARCH"):  # emitted as ff_global, ...
        v = _one(fails, nm, om, r"pub const %s: u32 = (0x[0-9A-Fa-f]+);" % nm)
        g.defN("f" + nm.lower(), v)

    # is_global: start == 0 && end == u32::MAX  (constants of the global range)
    ok = len(re.findall(r"self\.start == 0 && self\.end == u32::MAX", cm)) == 1
    if not ok:
        fails.append(("feature_is_global", "Feature::is_global is not `start == 0 && end == u32::MAX`"))
    g.defN("feat_global_start", 0)
    g.defN("feat_global_end", (1 << 32) - 1 if ok else 0)

    # ---- statement texts the model was written from (recorded, not guards; see module docstring)
    stmts = [
        ("alloc_bits_needed", om, r"hb_ot_map_t::MAX_BITS\.min\(num_bits\)", 1),
        ("alloc_num_bits", om, r"let num_bits = 8 \* core::mem::size_of_val\(&v\) as u32 - v\.leading_zeros\(\);", 1),
        ("alloc_global_bit_case", om, r"let bits_needed = if info\.flags & F_GLOBAL != 0 && info\.max_value == 1 \{", 1),
        ("alloc_drop_condition", om, r"if info\.max_value == 0 \|\| next_bit \+ bits_needed >= GLOBAL_BIT_SHIFT \{", 1),
        ("alloc_fallback_condition", om, r"if !found && !info\.flags & F_HAS_FALLBACK != 0 \{", 1),
        ("alloc_mask", om, r"let mask = \(1 << \(next_bit \+ bits_needed\)\) - \(1 << next_bit\);", 1),
        ("alloc_advance", om, r"next_bit \+= bits_needed;", 1),
        ("alloc_global_mask", om, r"global_mask \|= \(info\.default_value << shift\) & mask;", 1),
        ("set_masks_range_test", bf, r"if cluster_start <= info\.cluster && info\.cluster < cluster_end \{", 1),
        ("set_masks_global", bf, r"if cluster_start == 0 && cluster_end == core::u32::MAX \{", 1),
        ("set_masks_update", bf, r"info\.mask = \(info\.mask & not_mask\) \| value;", 2),
        ("new_start_arms", cm, r"Bound::Included\(&included\) => included\.min\(max\) as u32,\s*\n\s*Bound::Excluded\(&excluded\) => excluded\.min\(max - 1\) as u32 \+ 1,\s*\n\s*Bound::Unbounded => 0,", 1),
        ("new_end_arms", cm, r"Bound::Included\(&included\) => included\.min\(max\) as u32,\s*\n\s*Bound::Excluded\(&excluded\) => excluded\.saturating_sub\(1\)\.min\(max\) as u32,\s*\n\s*Bound::Unbounded => max as u32,", 1),
        ("alt_shift", alt, r"let shift = ctx\.lookup_mask\(\)\.trailing_zeros\(\);", 1),
        ("alt_index", alt, r"let mut alt_index = \(ctx\.lookup_mask\(\) & glyph_mask\) >> shift;", 1),
        ("alt_random", alt, r"if alt_index == hb_ot_map_t::MAX_VALUE && ctx\.random \{", 1),
        ("alt_pick", alt, r"let idx = u16::try_from\(alt_index\)\.ok\(\)\?\.checked_sub\(1\)\?;", 1),
    ]
    sig = 0
    changed = []
    for i, (nm, src, pat, want) in enumerate(stmts):
        if len(re.findall(pat, src)) == want:
            sig |= 1 << i
        else:
            changed.append(nm)
    g.raw("(* statements whose source text changed since the model was written: %s *)" % (", ".join(changed) or "none"))
    g.defN("feat_stmt_shapes", sig)
    g.defN("feat_stmt_count", len(stmts))
    return [g]
