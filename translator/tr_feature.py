"""Translator for property C14: constants of the feature-mask machinery -> coq/Gen/FeatureConsts.v.
Sources: src/hb/ot_map.rs (MAX_BITS, MAX_VALUE, GLOBAL_BIT_SHIFT, first feature bit, flag constants),
src/hb/buffer.rs (glyph_flag::DEFINED), src/hb/common.rs (the global range 0..u32::MAX of is_global).
Every extractor has a shape guard; on mismatch the value becomes 0 and the guard is reported."""
import re

from tr_util import Gen, read


def _one(fails, name, src, pattern, conv=lambda m: int(m, 0), flags=0):
    m = re.findall(pattern, src, flags)
    if len(m) == 1:
        try:
            return conv(m[0])
        except Exception as ex:  # noqa
            fails.append((name, "cannot convert %r: %r" % (m[0], ex)))
            return 0
    fails.append((name, "pattern %r found %d times (expected exactly 1)" % (pattern, len(m))))
    return 0


def run(repo, fails):
    g = Gen("FeatureConsts")
    g.header("constants of user-feature mask allocation (C14), from src/hb/ot_map.rs, buffer.rs, common.rs")
    om = read(repo, "src/hb/ot_map.rs")
    bf = read(repo, "src/hb/buffer.rs")
    cm = read(repo, "src/hb/common.rs")
    alt = read(repo, "src/hb/ot/layout/GSUB/alternate_set.rs")

    max_bits = _one(fails, "feat_max_bits", om, r"pub const MAX_BITS: u32 = (\d+);")
    g.defN("feat_max_bits", max_bits)
    # MAX_VALUE = (1 << MAX_BITS) - 1
    ok = len(re.findall(r"pub const MAX_VALUE: u32 = \(1 << Self::MAX_BITS\) - 1;", om)) == 1
    if not ok:
        fails.append(("feat_max_value", "MAX_VALUE is not (1 << Self::MAX_BITS) - 1"))
    g.defN("feat_max_value", ((1 << max_bits) - 1) if ok and max_bits else 0)

    # GLOBAL_BIT_SHIFT = 8 * u32::SIZE - 1 ; GLOBAL_BIT_MASK = 1 << GLOBAL_BIT_SHIFT ; hb_mask_t = u32
    ok = (len(re.findall(r"const GLOBAL_BIT_SHIFT: u32 = 8 \* u32::SIZE as u32 - 1;", om)) == 1
          and len(re.findall(r"const GLOBAL_BIT_MASK: hb_mask_t = 1 << GLOBAL_BIT_SHIFT;", om)) == 1
          and len(re.findall(r"type hb_mask_t = u32;", read(repo, "src/hb/mod.rs"))) == 1)
    if not ok:
        fails.append(("feat_global_bit", "GLOBAL_BIT_SHIFT/GLOBAL_BIT_MASK/hb_mask_t do not have the expected shape"))
    g.defN("feat_global_bit", 31 if ok else 0)

    # first feature bit: glyph_flag::DEFINED.count_ones() + 1
    defined = _one(fails, "glyph_flag_defined", bf, r"pub const DEFINED: u32 = (0x[0-9A-Fa-f]+);")
    ok = len(re.findall(r"let mut next_bit = glyph_flag::DEFINED\.count_ones\(\) \+ 1;", om)) == 1
    if not ok:
        fails.append(("feat_first_bit", "next_bit is not initialised as glyph_flag::DEFINED.count_ones() + 1"))
    g.defN("glyph_flag_defined", defined)
    g.defN("feat_flag_bits", bin(defined).count("1") if defined else 0)
    g.defN("feat_first_bit", (bin(defined).count("1") + 1) if ok and defined else 0)

    # flags of hb_ot_map_feature_flags_t the allocation reads
    for nm in ("F_GLOBAL", "F_HAS_FALLBACK", "F_GLOBAL_SEARCH"):  # emitted as ff_global, ...
        v = _one(fails, nm, om, r"pub const %s: u32 = (0x[0-9A-Fa-f]+);" % nm)
        g.defN("f" + nm.lower(), v)

    # the shape of the allocation conditions (a change here must be re-modelled, not silently accepted)
    shapes = [
        ("alloc_bits_needed", r"hb_ot_map_t::MAX_BITS\.min\(num_bits\)"),
        ("alloc_num_bits", r"let num_bits = 8 \* core::mem::size_of_val\(&v\) as u32 - v\.leading_zeros\(\);"),
        ("alloc_global_bit_case", r"let bits_needed = if info\.flags & F_GLOBAL != 0 && info\.max_value == 1 \{"),
        ("alloc_drop_condition", r"if info\.max_value == 0 \|\| next_bit \+ bits_needed >= GLOBAL_BIT_SHIFT \{"),
        ("alloc_fallback_condition", r"if !found && !info\.flags & F_HAS_FALLBACK != 0 \{"),
        ("alloc_mask", r"let mask = \(1 << \(next_bit \+ bits_needed\)\) - \(1 << next_bit\);"),
        ("alloc_advance", r"next_bit \+= bits_needed;"),
        ("alloc_global_mask", r"global_mask \|= \(info\.default_value << shift\) & mask;"),
    ]
    sig = 0
    for i, (nm, pat) in enumerate(shapes):
        if len(re.findall(pat, om)) == 1:
            sig |= 1 << i
        else:
            fails.append((nm, "expected exactly one occurrence of /%s/ in ot_map.rs" % pat))
    g.defN("feat_alloc_shape_ok", 1 if sig == (1 << len(shapes)) - 1 else 0)

    # set_masks: the comparison operators of the range test and the global shortcut
    shapes = [
        ("set_masks_range_test", r"if cluster_start <= info\.cluster && info\.cluster < cluster_end \{"),
        ("set_masks_global", r"if cluster_start == 0 && cluster_end == core::u32::MAX \{"),
        ("set_masks_update", r"info\.mask = \(info\.mask & not_mask\) \| value;"),
    ]
    okc = True
    for nm, pat in shapes:
        n = len(re.findall(pat, bf))
        want = 2 if nm == "set_masks_update" else 1
        if n != want:
            okc = False
            fails.append((nm, "expected %d occurrence(s) of /%s/ in buffer.rs, found %d" % (want, pat, n)))
    g.defN("feat_set_masks_shape_ok", 1 if okc else 0)

    # is_global: start == 0 && end == u32::MAX
    ok = len(re.findall(r"self\.start == 0 && self\.end == u32::MAX", cm)) == 1
    if not ok:
        fails.append(("feature_is_global", "Feature::is_global is not `start == 0 && end == u32::MAX`"))
    g.defN("feat_global_start", 0)
    g.defN("feat_global_end", (1 << 32) - 1 if ok else 0)

    # Feature::new bound arms (the known finding lives here: a change must be noticed)
    arms = [
        ("new_start_included", r"Bound::Included\(&included\) => included\.min\(max\) as u32,\s*\n\s*Bound::Excluded\(&excluded\) => excluded\.min\(max - 1\) as u32 \+ 1,\s*\n\s*Bound::Unbounded => 0,"),
        ("new_end_arms", r"Bound::Included\(&included\) => included\.min\(max\) as u32,\s*\n\s*Bound::Excluded\(&excluded\) => excluded\.saturating_sub\(1\)\.min\(max\) as u32,\s*\n\s*Bound::Unbounded => max as u32,"),
    ]
    okn = True
    for nm, pat in arms:
        if len(re.findall(pat, cm)) != 1:
            okn = False
            fails.append((nm, "Feature::new bound arms changed shape (%s)" % nm))
    g.defN("feat_new_shape_ok", 1 if okn else 0)

    # alternate selection
    shapes = [
        ("alt_shift", r"let shift = ctx\.lookup_mask\(\)\.trailing_zeros\(\);"),
        ("alt_index", r"let mut alt_index = \(ctx\.lookup_mask\(\) & glyph_mask\) >> shift;"),
        ("alt_random", r"if alt_index == hb_ot_map_t::MAX_VALUE && ctx\.random \{"),
        ("alt_pick", r"let idx = u16::try_from\(alt_index\)\.ok\(\)\?\.checked_sub\(1\)\?;"),
    ]
    oka = True
    for nm, pat in shapes:
        if len(re.findall(pat, alt)) != 1:
            oka = False
            fails.append((nm, "alternate_set.rs: expected exactly one /%s/" % pat))
    g.defN("feat_alt_shape_ok", 1 if oka else 0)
    return [g]
