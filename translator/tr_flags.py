"""Translator for C04/C05: BufferFlags and glyph_flag constants, shape of propagate_flags and of the
enter/leave pairing in shape_with_plan."""
import re

from tr_util import Gen, read


def run(repo, fails):
    g = Gen("Flags")
    g.header("BufferFlags / glyph_flag constants and two code-shape facts (lib.rs, buffer.rs, ot_shape.rs, shape.rs)")
    lib = read(repo, "src/lib.rs")
    m = re.search(r"pub struct BufferFlags: u32 \{(.*?)\n    \}", lib, re.S)
    names = []
    if m:
        for nm, val in re.findall(r"const\s+(\w+)\s*=\s*(0x[0-9A-Fa-f]+|\d+)\s*;", m.group(1)):
            names.append((nm, int(val, 0)))
    if len(names) < 8:
        fails.append(("buffer_flags", "BufferFlags constants not found"))
    g.raw("(* (name index, value) in source order; DEFINED last *)")
    g.defNlist("buffer_flag_values", [v for n, v in names if n != "DEFINED"])
    d = dict(names)
    g.defN("buffer_flags_defined", d.get("DEFINED", 0))
    g.defN("flag_produce_unsafe_to_concat", d.get("PRODUCE_UNSAFE_TO_CONCAT", 0))
    g.defN("flag_produce_safe_to_insert_tatweel", d.get("PRODUCE_SAFE_TO_INSERT_TATWEEL", 0))
    buf = read(repo, "src/hb/buffer.rs")
    gf = dict((n, int(v, 0)) for n, v in re.findall(r"pub const (UNSAFE_TO_BREAK|UNSAFE_TO_CONCAT|SAFE_TO_INSERT_TATWEEL|DEFINED): u32 = (0x[0-9A-Fa-f]+);", buf))
    for k in ("UNSAFE_TO_BREAK", "UNSAFE_TO_CONCAT", "SAFE_TO_INSERT_TATWEEL", "DEFINED"):
        if k not in gf:
            fails.append(("glyph_flag_" + k, "glyph_flag::%s not found" % k))
    g.defN("glyph_flag_unsafe_to_break", gf.get("UNSAFE_TO_BREAK", 0))
    g.defN("glyph_flag_unsafe_to_concat", gf.get("UNSAFE_TO_CONCAT", 0))
    g.defN("glyph_flag_safe_to_insert_tatweel", gf.get("SAFE_TO_INSERT_TATWEEL", 0))
    g.defN("glyph_flag_defined", gf.get("DEFINED", 0))
    # budgets
    consts = dict((n, int(v, 0)) for n, v in re.findall(r"pub const (MAX_LEN_FACTOR|MAX_LEN_MIN|MAX_LEN_DEFAULT|MAX_OPS_FACTOR|MAX_OPS_MIN|MAX_OPS_DEFAULT): \w+ = (0x[0-9A-Fa-f]+|\d+);", buf))
    for k in ("MAX_LEN_FACTOR", "MAX_LEN_MIN", "MAX_LEN_DEFAULT", "MAX_OPS_FACTOR", "MAX_OPS_MIN", "MAX_OPS_DEFAULT"):
        if k not in consts:
            fails.append(("budget_" + k, "hb_buffer_t::%s not found" % k))
        g.defN("buf_" + k.lower(), consts.get(k, 0))
    # shape of propagate_flags: the write-back loop must not sit inside `if clear_concat`
    osh = read(repo, "src/hb/ot_shape.rs")
    m = re.search(r"fn propagate_flags\(buffer: &mut hb_buffer_t\) \{(.*?)\n\}\n", osh, re.S)
    wb = None
    if m:
        body = m.group(1)
        mm = re.search(r"if clear_concat \{(.*?)\n        \}", body, re.S)
        if mm is not None:
            wb = "info.mask = mask" not in mm.group(1) and "info.mask = mask" in body
    if wb is None:
        fails.append(("propagate_flags_shape", "fn propagate_flags not found or `if clear_concat` block not recognised"))
        wb = False
    g.raw("Definition propagate_writeback_unconditional : bool := %s." % ("true" if wb else "false"))
    # shape of shape_with_plan: enter() is paired with an unconditional leave()
    sh = read(repo, "src/hb/shape.rs")
    m = re.search(r"pub fn shape_with_plan\((.*?)\n\}\n", sh, re.S)
    paired = None
    if m:
        body = m.group(1)
        if "buffer.enter();" in body:
            # a leave() at nesting depth 1 of the function body (not inside the `if buffer.len > 0` block)
            depth = 0
            paired = False
            for line in body.split("\n"):
                if "buffer.leave();" in line and depth <= 1:
                    paired = True
                depth += line.count("{") - line.count("}")
        else:
            paired = True  # no enter here at all: shape_internal pairs its own
    if paired is None:
        fails.append(("shape_with_plan_shape", "fn shape_with_plan not found"))
        paired = False
    g.raw("Definition shape_with_plan_leave_unconditional : bool := %s." % ("true" if paired else "false"))
    return [g]
