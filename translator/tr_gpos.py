"""tr_gpos: constants the C07 model (coq/Model/{Gpos,Attach,Kern,PosPipe}.v) shares with the source ->
coq/Gen/GposConsts.v.  Every item has a shape guard (found exactly once and parses); on a mismatch the
guard is reported (prefix `gpos:`) and the value becomes 0 / [] so that `C07_consts` stops checking.

  * lookup_flags::* (ot_layout_common.rs), GlyphPropsFlags::* (buffer.rs), attach_type::* and the use of
    (ot_layout_gpos_table.rs), MAX_NESTING_LEVEL (ot_layout.rs)
  * HB_BUFFER_SCRATCH_FLAG_HAS_GPOS_ATTACHMENT (buffer.rs)
  * DEFAULT_SHAPER.zero_width_marks (ot_shaper.rs) as its numeric mode
  * COMMON_FEATURES / HORIZONTAL_FEATURES of collect_features (ot_shape.rs) as tag numbers
  * the shift `kern >> 1` of machine_kern (kerning.rs).
Control-flow facts (the nesting bound of propagate_attachment_offsets, the pairing of the two reverses in
hb_ot_layout_kern) are deliberately NOT tied syntactically: they are behavioural and are covered by the
correspondence (cursive chains of 65..150 glyphs; backward text with kerning off) so that a refactor that
keeps the behaviour raises no alarm."""
import re

from tr_util import Gen, read


def num(s):
    s = s.replace("_", "")
    return int(s, 16) if s.lower().startswith("0x") else int(s)


def tagn(t):
    b = t.encode()
    return (b[0] << 24) | (b[1] << 16) | (b[2] << 8) | b[3]


def one(fails, g, name, src, pattern, conv=num, flags=re.M):
    m = re.findall(pattern, src, flags)
    if len(m) == 1:
        try:
            g.defN(name, conv(m[0]))
            return
        except Exception:  # noqa
            pass
    fails.append(("gpos:" + name, "pattern %r not found exactly once (found %d)" % (pattern, len(m))))
    g.defN(name, 0)


def run(repo, fails):
    g = Gen("GposConsts")
    g.header("constants of the GPOS / kern / positioning code")
    common = read(repo, "src/hb/ot_layout_common.rs")
    for nm in ["RIGHT_TO_LEFT", "IGNORE_BASE_GLYPHS", "IGNORE_LIGATURES", "IGNORE_MARKS", "IGNORE_FLAGS",
               "USE_MARK_FILTERING_SET", "MARK_ATTACHMENT_TYPE_MASK"]:
        one(fails, g, "src_LF_" + nm, common, r"pub const %s\s*:\s*u16\s*=\s*(0x[0-9A-Fa-f_]+|\d+)\s*;" % nm)
    buf = read(repo, "src/hb/buffer.rs")
    for nm in ["BASE_GLYPH", "LIGATURE", "MARK", "SUBSTITUTED", "LIGATED", "MULTIPLIED"]:
        one(fails, g, "src_GP_" + nm, buf, r"const %s\s*=\s*(0x[0-9A-Fa-f_]+|\d+)\s*;" % nm)
    one(fails, g, "src_HAS_GPOS_ATTACHMENT", buf, r"pub const HB_BUFFER_SCRATCH_FLAG_HAS_GPOS_ATTACHMENT\s*:\s*u32\s*=\s*(0x[0-9A-Fa-f_]+|\d+)\s*;")
    gpos = read(repo, "src/hb/ot_layout_gpos_table.rs")
    one(fails, g, "src_ATTACH_MARK", gpos, r"pub const MARK\s*:\s*u8\s*=\s*(\d+)\s*;")
    one(fails, g, "src_ATTACH_CURSIVE", gpos, r"pub const CURSIVE\s*:\s*u8\s*=\s*(\d+)\s*;")
    lay = read(repo, "src/hb/ot_layout.rs")
    one(fails, g, "src_MAX_NESTING_LEVEL", lay, r"pub const MAX_NESTING_LEVEL\s*:\s*usize\s*=\s*(\d+)\s*;")
    shp = read(repo, "src/hb/ot_shaper.rs")
    m = re.search(r"pub const DEFAULT_SHAPER\s*:\s*hb_ot_shaper_t\s*=\s*hb_ot_shaper_t\s*\{(.*?)\};", shp, re.S)
    mode = None
    if m:
        mm = re.search(r"zero_width_marks\s*:\s*(HB_OT_SHAPE_ZERO_WIDTH_MARKS_\w+)", m.group(1))
        if mm:
            mv = re.findall(r"pub const %s\s*:\s*u32\s*=\s*(\d+)\s*;" % mm.group(1), shp)
            if len(mv) == 1:
                mode = int(mv[0])
    if mode is None:
        fails.append(("gpos:default_zero_width_marks", "DEFAULT_SHAPER.zero_width_marks not found"))
        mode = 0
    g.defN("src_default_zero_width_marks", mode)
    osh = read(repo, "src/hb/ot_shape.rs")
    for nm in ["COMMON_FEATURES", "HORIZONTAL_FEATURES"]:
        m = re.findall(r"const %s\s*:\s*&\[\(hb_tag_t,\s*hb_ot_map_feature_flags_t\)\]\s*=\s*&\[(.*?)\];" % nm, osh, re.S)
        tags = re.findall(r'hb_tag_t::from_bytes\(b"([^"]{4})"\)', m[0]) if len(m) == 1 else None
        if not tags:
            fails.append(("gpos:" + nm, "feature list not found exactly once"))
            tags = []
        g.defNlist("src_" + nm, [tagn(t) for t in tags])
    kern = read(repo, "src/hb/kerning.rs")
    sh = re.findall(r"let kern1\s*=\s*kern\s*>>\s*(\d+)\s*;", kern)
    if len(sh) == 2 and sh[0] == sh[1]:
        g.defN("src_kern1_shift", int(sh[0]))
    else:
        fails.append(("gpos:kern1_shift", "`let kern1 = kern >> N;` not found twice with the same N"))
        g.defN("src_kern1_shift", 0)
    return [g]
