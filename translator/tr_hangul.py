"""tr_hangul: /repo/src/hb/ot_shaper_hangul.rs (+ the Hangul constants of unicode.rs) -> coq/Gen/HangulConsts.v

Extracted on every run, each with a shape guard:
  * the nine numeric constants L_BASE .. S_BASE (initialiser expressions are translated, not evaluated:
    `N_COUNT = V_COUNT * T_COUNT` stays a product over the other constants),
  * the feature numbers LJMO / VJMO / TJMO,
  * the eight range predicates is_combining_l/v/t, is_combined_s, is_l, is_v, is_t, is_hangul_tone as
    lists of (lo, hi) closed ranges (bounds are expressions over the constants),
  * the three literals the function uses besides the constants: the dotted circle, the
    MONOTONE_GRAPHEMES test constant and the cluster-level numbers of buffer.rs,
  * the same nine constants as unicode.rs declares them (prefix U_).
The statement-level structure of `preprocess_text_hangul`, `compose_hangul` and `decompose_hangul` is
hand-modelled in coq/Model/Hangul.v and tied by the exhaustive correspondence run, not by text."""
import re

from tr_util import Gen, read

CONSTS = ["L_BASE", "V_BASE", "T_BASE", "L_COUNT", "V_COUNT", "T_COUNT", "N_COUNT", "S_COUNT", "S_BASE"]
PREDS = ["is_combining_l", "is_combining_v", "is_combining_t", "is_combined_s", "is_l", "is_v", "is_t", "is_hangul_tone"]
TOK = re.compile(r"\s*(0x[0-9A-Fa-f_]+|\d[\d_]*|[A-Za-z_][A-Za-z0-9_]*|[-+*()])")


def expr(src, allowed, prefix=""):
    """Translate a Rust u32 constant expression (identifiers in `allowed`, literals, + - *, parentheses)
    to a Coq N expression; None when it has any other shape."""
    out = []
    pos = 0
    src = src.strip()
    while pos < len(src):
        m = TOK.match(src, pos)
        if not m:
            return None
        t = m.group(1)
        pos = m.end()
        if t[0].isdigit():
            t = t.replace("_", "")
            out.append(str(int(t, 16) if t.lower().startswith("0x") else int(t)))
        elif t[0].isalpha() or t[0] == "_":
            if t not in allowed:
                return None
            out.append(prefix + t)
        else:
            out.append(t)
    if not out or out.count("(") != out.count(")"):
        return None
    return " ".join(out)


def const_block(src, g, fails, prefix, tag):
    seen = []
    for name in CONSTS:
        m = re.findall(r"^const\s+%s\s*:\s*u32\s*=\s*([^;]+);" % name, src, re.M)
        e = expr(m[0], seen, prefix) if len(m) == 1 else None
        if e is None:
            fails.append(("%s:%s" % (tag, name), "const %s: u32 = <expr over earlier constants>; not found exactly once" % name))
            e = "0"
        g.raw("Definition %s%s : N := %s." % (prefix, name, e))
        seen.append(name)


def run(repo, fails):
    g = Gen("HangulConsts")
    g.header("Hangul constants, feature numbers and range predicates of src/hb/ot_shaper_hangul.rs; constants of src/hb/unicode.rs")
    src = read(repo, "src/hb/ot_shaper_hangul.rs")
    # ---- feature numbers
    for name in ("LJMO", "VJMO", "TJMO"):
        m = re.findall(r"^const\s+%s\s*:\s*u8\s*=\s*(\d+)\s*;" % name, src, re.M)
        if len(m) == 1:
            g.defN(name, int(m[0]))
        else:
            fails.append(("hangul:" + name, "const %s: u8 = N; not found exactly once" % name))
            g.defN(name, 0)
    # the mask array must be indexed [none, ljmo, vjmo, tjmo] for the numbers to mean the features
    m = re.search(r"mask_array\s*:\s*\[\s*0\s*,(.*?)\]\s*,?\s*\}", src, re.S)
    tags = re.findall(r'get_1_mask\(hb_tag_t::from_bytes\(b"(\w{4})"\)\)', m.group(1)) if m else []
    if tags != ["ljmo", "vjmo", "tjmo"]:
        fails.append(("hangul:mask_array", "mask_array is not [0, ljmo, vjmo, tjmo]: %r" % (tags,)))
        g.raw("Definition hangul_mask_tags_ok : bool := false.")
    else:
        g.raw("Definition hangul_mask_tags_ok : bool := true.")
    # setup_masks must OR mask_array[feature] into every info
    if not re.search(r"info\.mask\s*\|=\s*hangul_plan\.mask_array\[info\.hangul_shaping_feature\(\)\s*as\s*usize\]", src):
        fails.append(("hangul:setup_masks", "setup_masks_hangul does not apply mask_array[hangul_shaping_feature]"))
    g.raw("")
    # ---- constants
    const_block(src, g, fails, "", "hangul")
    g.raw("")
    # ---- range predicates
    for name in PREDS:
        m = re.findall(r"^fn\s+%s\s*\(\s*u\s*:\s*u32\s*\)\s*->\s*bool\s*\{(.*?)^\}" % name, src, re.M | re.S)
        ranges = None
        if len(m) == 1:
            parts = [p.strip() for p in m[0].strip().split("||")]
            ranges = []
            for p in parts:
                mm = re.fullmatch(r"\((.+?)\.\.=(.+)\)\s*\.contains\(&u\)", p, re.S)
                lo = expr(mm.group(1), CONSTS) if mm else None
                hi = expr(mm.group(2), CONSTS) if mm else None
                if lo is None or hi is None:
                    ranges = None
                    break
                ranges.append("(%s, %s)" % (lo, hi))
        if ranges is None:
            fails.append(("hangul:" + name, "fn %s(u: u32) -> bool is not `(lo..=hi).contains(&u) [|| ...]`" % name))
            ranges = []
        g.raw("Definition %s_ranges : list (N * N) := [%s]." % (name, "; ".join(ranges)))
    g.raw("")
    # ---- literals used by preprocess_text_hangul
    n_dc = len(re.findall(r"0x25CC\b", src))
    if n_dc != 3 or not re.search(r"face\.has_glyph\(0x25CC\)", src):
        fails.append(("hangul:dotted_circle", "expected has_glyph(0x25CC) and two uses of 0x25CC in the chars array, found %d" % n_dc))
        g.defN("DOTTED_CIRCLE", 0)
    else:
        g.defN("DOTTED_CIRCLE", 0x25CC)
    lv = re.findall(r"buffer\.cluster_level\s*==\s*(HB_BUFFER_CLUSTER_LEVEL_\w+)", src)
    bsrc = read(repo, "src/hb/buffer.rs")
    levels = {}
    for nm in ("MONOTONE_GRAPHEMES", "MONOTONE_CHARACTERS", "CHARACTERS"):
        m = re.findall(r"^pub const HB_BUFFER_CLUSTER_LEVEL_%s\s*:\s*u32\s*=\s*(\d+)\s*;" % nm, bsrc, re.M)
        if len(m) == 1:
            levels[nm] = int(m[0])
        else:
            fails.append(("buffer:cluster_level_" + nm, "constant not found exactly once"))
            levels[nm] = 99
        g.defN("LEVEL_" + nm, levels[nm])
    if lv != ["HB_BUFFER_CLUSTER_LEVEL_MONOTONE_GRAPHEMES"] * 2:
        fails.append(("hangul:merge_level_test", "expected two `cluster_level == ..MONOTONE_GRAPHEMES` tests, found %r" % (lv,)))
        g.defN("HANGUL_MERGE_LEVEL", 99)
    else:
        g.defN("HANGUL_MERGE_LEVEL", levels["MONOTONE_GRAPHEMES"])
    g.raw("")
    # ---- unicode.rs constants
    usrc = read(repo, "src/hb/unicode.rs")
    const_block(usrc, g, fails, "U_", "unicode")
    return [g]
