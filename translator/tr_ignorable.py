"""tr_ignorable: /repo/src/hb/unicode.rs `fn is_default_ignorable` -> coq/Gen/Ignorable.v (property C13).

The Rust function is translated *structurally* into a Gallina function over N:

    let ch = u32::from(self);            (ch is the argument)
    let plane = ch >> 16;                N.shiftr ch 16
    if plane == 0 { let page = ch >> 8; match page { arms } } else { match plane { arms } }

Every `match` becomes a first-match if-chain in source order; arm patterns may be literals, inclusive
ranges and `|` alternatives, `_` is the default; arm bodies are `||`-disjunctions of `ch == LIT`,
`(LIT..=LIT).contains(&ch)`, `(LIT..LIT).contains(&ch)`, `true`, `false`, optionally in braces or
parentheses. Anything else is a shape-guard failure: the generated function then is `fun _ => false`
together with `ignorable_shape_ok := false` (so the classification theorem cannot be proved from
stale data). Also extracted: the flag/bit constants that the default-ignorable passes test."""
import re

from tr_util import Gen, read


class Shape(Exception):
    pass


def strip_comments(s):
    s = re.sub(r"/\*.*?\*/", " ", s, flags=re.S)
    return re.sub(r"//[^\n]*", " ", s)


def fn_body(src, name):
    """Text between the braces of `fn name(...) ... { ... }` (found exactly once)."""
    # definitions only (the trait declaration ends in `;`)
    ms = list(re.finditer(r"\bfn\s+%s\s*\([^)]*\)\s*->\s*bool\s*\{" % re.escape(name), src))
    if len(ms) != 1:
        raise Shape("fn %s defined %d times" % (name, len(ms)))
    i = ms[0].end() - 1
    return balanced(src, i)[0]


def balanced(s, i):
    """s[i] == '{' -> (inside, index after the closing brace)."""
    assert s[i] == "{"
    depth = 0
    for j in range(i, len(s)):
        if s[j] == "{":
            depth += 1
        elif s[j] == "}":
            depth -= 1
            if depth == 0:
                return s[i + 1:j], j + 1
    raise Shape("unbalanced braces")


TOK = re.compile(r"\s*(0[xX][0-9a-fA-F_]+|\d[\d_]*|\.\.=|\.\.|=>|==|\|\||[A-Za-z_][A-Za-z0-9_]*|[{}()|&.,;_])")


def tokenize(s):
    out = []
    i = 0
    s = s.strip()
    while i < len(s):
        m = TOK.match(s, i)
        if not m:
            if s[i:].strip() == "":
                break
            raise Shape("cannot tokenize near %r" % s[i:i + 30])
        out.append(m.group(1))
        i = m.end()
    return out


def lit(t):
    t = t.replace("_", "")
    try:
        return int(t, 16) if t.lower().startswith("0x") else int(t)
    except ValueError:
        raise Shape("expected an integer literal, got %r" % t)


class P:
    """Recursive-descent parser over the token list; produces Gallina text. `var` = matched variable."""

    def __init__(self, toks):
        self.t = toks
        self.i = 0

    def peek(self, k=0):
        return self.t[self.i + k] if self.i + k < len(self.t) else None

    def eat(self, x=None):
        tok = self.peek()
        if tok is None or (x is not None and tok != x):
            raise Shape("expected %r, got %r (token %d)" % (x, tok, self.i))
        self.i += 1
        return tok

    # expr := term ('||' term)*
    def expr(self):
        parts = [self.term()]
        while self.peek() == "||":
            self.eat()
            parts.append(self.term())
        return parts[0] if len(parts) == 1 else "(" + " || ".join(parts) + ")"

    def term(self):
        tok = self.peek()
        if tok == "true" or tok == "false":
            self.eat()
            return tok
        if tok == "ch":
            self.eat()
            self.eat("==")
            return "(ch =? 0x%X)" % lit(self.eat())
        if tok == "{":
            self.eat()
            e = self.expr()
            self.eat("}")
            return e
        if tok == "(":
            # either a parenthesised expression or a range receiver `(a..=b).contains(&ch)`
            if self.peek(2) in ("..=", ".."):
                self.eat()
                a = lit(self.eat())
                op = self.eat()
                b = lit(self.eat())
                self.eat(")")
                self.eat(".")
                self.eat("contains")
                self.eat("(")
                self.eat("&")
                self.eat("ch")
                self.eat(")")
                if op == "..=":
                    return "((0x%X <=? ch) && (ch <=? 0x%X))" % (a, b)
                return "((0x%X <=? ch) && (ch <? 0x%X))" % (a, b)
            self.eat()
            e = self.expr()
            self.eat(")")
            return e
        raise Shape("unexpected token %r in a boolean expression" % tok)

    # match VAR { arm* }  ->  if-chain
    def match(self, var):
        self.eat("match")
        self.eat(var)
        self.eat("{")
        arms = []
        default = None
        while self.peek() != "}":
            pat = self.pattern(var)
            self.eat("=>")
            body = self.expr()
            if self.peek() == ",":
                self.eat()
            if pat is None:
                default = body
                if self.peek() != "}":
                    raise Shape("arms after the `_` arm")
            else:
                arms.append((pat, body))
        self.eat("}")
        if default is None:
            raise Shape("match without a `_` arm")
        out = default
        for pat, body in reversed(arms):
            out = "if %s then %s\n      else %s" % (pat, body, out)
        return out

    def pattern(self, var):
        alts = []
        while True:
            tok = self.eat()
            if tok == "_":
                if alts or self.peek() == "|":
                    raise Shape("`_` inside an or-pattern")
                return None
            a = lit(tok)
            if self.peek() == "..=":
                self.eat()
                b = lit(self.eat())
                alts.append("((0x%X <=? %s) && (%s <=? 0x%X))" % (a, var, var, b))
            else:
                alts.append("(%s =? 0x%X)" % (var, a))
            if self.peek() == "|":
                self.eat()
                continue
            break
        return alts[0] if len(alts) == 1 else "(" + " || ".join(alts) + ")"


def translate_fn(src):
    body = strip_comments(fn_body(src, "is_default_ignorable"))
    s = re.sub(r"\s+", " ", body).strip()
    m = re.match(r"let ch = u32::from\(self\); let plane = ch >> (\d+); if plane == 0 \{ let page = ch >> (\d+); (match page \{.*\}) \} else \{ (match plane \{.*\}) \}$", s)
    if not m:
        raise Shape("function body is not `let ch; let plane = ch >> N; if plane == 0 { let page = ch >> M; match page {..} } else { match plane {..} }`")
    sh_plane, sh_page = int(m.group(1)), int(m.group(2))
    p1 = P(tokenize(m.group(3)))
    bmp = p1.match("page")
    if p1.peek() is not None:
        raise Shape("trailing tokens after `match page`")
    p2 = P(tokenize(m.group(4)))
    other = p2.match("plane")
    if p2.peek() is not None:
        raise Shape("trailing tokens after `match plane`")
    return ("Definition is_default_ignorable (ch : N) : bool :=\n"
            "  let plane := N.shiftr ch %d in\n"
            "  if plane =? 0 then\n"
            "    let page := N.shiftr ch %d in\n"
            "      %s\n"
            "  else\n"
            "      %s.\n" % (sh_plane, sh_page, bmp, other))


def const(src, rx, what, fails, g, name):
    ms = re.findall(rx, src)
    if len(ms) != 1:
        fails.append(("ignorable_" + name, "%s not found exactly once (%d)" % (what, len(ms))))
        g.defN(name, 0)
        return
    g.defN(name, int(ms[0].replace("_", ""), 16) if ms[0].lower().startswith("0x") else int(ms[0]))


def run(repo, fails):
    g = Gen("Ignorable")
    g.header("is_default_ignorable (src/hb/unicode.rs) as a Gallina function, and the bits the default-ignorable passes test")
    g.raw("From Coq Require Import Bool.")
    src = read(repo, "src/hb/unicode.rs")
    try:
        fn = translate_fn(src)
        ok = True
    except Shape as ex:
        fails.append(("ignorable_fn_shape", str(ex)))
        fn = "Definition is_default_ignorable (ch : N) : bool := false.\n"
        ok = False
    g.raw("(* shape guard of the translation (false: the source no longer has the translated shape) *)")
    g.raw("Definition ignorable_shape_ok : bool := %s.\n" % ("true" if ok else "false"))
    g.raw(fn)
    buf = read(repo, "src/hb/buffer.rs")
    lib = read(repo, "src/lib.rs")
    const(buf, r"const IGNORABLE\s*=\s*(0x[0-9A-Fa-f_]+)\s*;", "UnicodeProps::IGNORABLE", fails, g, "UPROPS_IGNORABLE")
    const(buf, r"const SUBSTITUTED\s*=\s*(0x[0-9A-Fa-f_]+)\s*;", "GlyphPropsFlags::SUBSTITUTED", fails, g, "GPROPS_SUBSTITUTED")
    const(buf, r"pub const HB_BUFFER_SCRATCH_FLAG_HAS_DEFAULT_IGNORABLES: u32 = (0x[0-9A-Fa-f_]+);", "scratch flag", fails, g, "SCRATCH_HAS_DEFAULT_IGNORABLES")
    const(buf, r"pub const DEFINED: u32 = (0x[0-9A-Fa-f_]+);", "glyph_flag::DEFINED", fails, g, "GLYPH_FLAG_DEFINED")
    const(buf, r"pub const UNSAFE_TO_BREAK: u32 = (0x[0-9A-Fa-f_]+);", "glyph_flag::UNSAFE_TO_BREAK", fails, g, "GLYPH_FLAG_UNSAFE_TO_BREAK")
    const(buf, r"pub const UNSAFE_TO_CONCAT: u32 = (0x[0-9A-Fa-f_]+);", "glyph_flag::UNSAFE_TO_CONCAT", fails, g, "GLYPH_FLAG_UNSAFE_TO_CONCAT")
    const(buf, r"pub const HB_BUFFER_CLUSTER_LEVEL_CHARACTERS: u32 = (\d+);", "cluster level CHARACTERS", fails, g, "CLUSTER_LEVEL_CHARACTERS")
    const(lib, r"const PRESERVE_DEFAULT_IGNORABLES\s*=\s*(0x[0-9A-Fa-f_]+)\s*;", "BufferFlags::PRESERVE_DEFAULT_IGNORABLES", fails, g, "FLAG_PRESERVE_DEFAULT_IGNORABLES")
    const(lib, r"const REMOVE_DEFAULT_IGNORABLES\s*=\s*(0x[0-9A-Fa-f_]+)\s*;", "BufferFlags::REMOVE_DEFAULT_IGNORABLES", fails, g, "FLAG_REMOVE_DEFAULT_IGNORABLES")
    # init_unicode_props: the IGNORABLE bit is set under `if u as u32 >= 0x80 { ... if u.is_default_ignorable() {`
    body = re.sub(r"\s+", " ", strip_comments(buf))
    m = re.findall(r"if u as u32 >= (0x[0-9A-Fa-f]+) \{ \*scratch_flags \|= HB_BUFFER_SCRATCH_FLAG_HAS_NON_ASCII; "
                   r"if u\.is_default_ignorable\(\) \{ props \|= UnicodeProps::IGNORABLE\.bits\(\); "
                   r"\*scratch_flags \|= HB_BUFFER_SCRATCH_FLAG_HAS_DEFAULT_IGNORABLES;", body)
    if len(m) == 1:
        g.defN("IGNORABLE_MIN_CP", int(m[0], 16))
    else:
        fails.append(("ignorable_init_props_shape", "init_unicode_props no longer sets IGNORABLE + HAS_DEFAULT_IGNORABLES under `u >= 0x80 && is_default_ignorable`"))
        g.defN("IGNORABLE_MIN_CP", 0x110000)
    return [g]
