"""Translator for C11 (joining scripts): /repo/src/hb/ot_shaper_arabic.rs, ot_shaper_arabic_table.rs,
buffer.rs -> coq/Gen/JoiningTable.v (STATE_TABLE, action / joining-type enum numbering, ARABIC_FEATURES
order, CONTEXT_LENGTH) and coq/Gen/JoiningTypes.v (char -> joining type of `joining_type()` as a total
partition of 0..0x10FFFF into runs).  Every extractor has a shape guard; on mismatch the value becomes
empty/zero (so `table_ok` and the correspondence fail) and the guard name is reported."""
import re

from tr_util import Gen, read, chunk

ACTIONS = ["ISOL", "FINA", "FIN2", "FIN3", "MEDI", "MED2", "INIT", "NONE"]
JTYPES = ["U", "L", "R", "D", "GroupAlaph", "GroupDalathRish", "T", "X"]
JT_COQ = {"U": "jt_U", "L": "jt_L", "R": "jt_R", "D": "jt_D", "GroupAlaph": "jt_ALAPH",
          "GroupDalathRish": "jt_DALATH_RISH", "T": "jt_T", "X": "jt_X"}


def strip_comments(s):
    s = re.sub(r"/\*.*?\*/", " ", s, flags=re.S)
    return re.sub(r"//[^\n]*", " ", s)


def num(s):
    s = s.replace("_", "")
    return int(s, 16) if s.lower().startswith("0x") else int(s)


def parse_actions(src, fails):
    m = re.findall(r"mod\s+arabic_action_t\s*\{(.*?)\n\}", src, re.S)
    vals = {}
    if len(m) == 1:
        for name, v in re.findall(r"pub const (\w+): u8 = (\d+);", m[0]):
            vals[name] = int(v)
    if len(m) != 1 or any(a not in vals for a in ACTIONS):
        fails.append(("joining_action_enum", "mod arabic_action_t with u8 constants %s not found exactly once" % ACTIONS))
        return None
    if len(set(vals[a] for a in ACTIONS)) != len(ACTIONS):
        fails.append(("joining_action_enum", "action constants are not pairwise distinct: %r" % vals))
        return None
    return vals


def parse_jtypes(src, fails):
    m = re.findall(r"pub enum hb_arabic_joining_type_t\s*\{(.*?)\}", src, re.S)
    vals = {}
    if len(m) == 1:
        body = strip_comments(m[0])
        items = [x.strip() for x in body.split(",") if x.strip()]
        for it in items:
            mm = re.fullmatch(r"(\w+)\s*=\s*(\d+)", it)
            if not mm:
                vals = {}
                break
            vals[mm.group(1)] = int(mm.group(2))
    if len(m) != 1 or sorted(vals) != sorted(JTYPES):
        fails.append(("joining_type_enum", "enum hb_arabic_joining_type_t with explicit discriminants for exactly %s not found" % JTYPES))
        return None
    return vals


def parse_state_table(src, actions, fails):
    m = re.findall(r"const STATE_TABLE:\s*&\[\[\(u8,\s*u8,\s*u16\);\s*(\d+)\]\]\s*=\s*&\[(.*?)\n\];", src, re.S)
    if len(m) != 1 or actions is None:
        fails.append(("joining_state_table", "const STATE_TABLE: &[[(u8, u8, u16); N]] = &[...]; not found exactly once"))
        return None, 0
    width = int(m[0][0])
    body = strip_comments(m[0][1])
    rows = re.findall(r"\[((?:[^\[\]])*)\]", body)
    # nothing but rows, commas and blanks may remain
    rest = re.sub(r"\[((?:[^\[\]])*)\]", "", body)
    if rest.replace(",", "").strip():
        fails.append(("joining_state_table", "unexpected text between rows: %r" % rest.strip()[:60]))
        return None, 0
    table = []
    for r in rows:
        ents = re.findall(r"\(\s*arabic_action_t::(\w+)\s*,\s*arabic_action_t::(\w+)\s*,\s*(\d+)\s*\)", r)
        leftover = re.sub(r"\(\s*arabic_action_t::(\w+)\s*,\s*arabic_action_t::(\w+)\s*,\s*(\d+)\s*\)", "", r)
        if leftover.replace(",", "").strip() or len(ents) != width or any(a not in actions or b not in actions for a, b, _ in ents):
            fails.append(("joining_state_table", "row %d is not %d entries (arabic_action_t::A, arabic_action_t::B, n)" % (len(table), width)))
            return None, 0
        table.append([(actions[a], actions[b], int(n)) for a, b, n in ents])
    if not table:
        fails.append(("joining_state_table", "no rows"))
        return None, 0
    return table, width


def parse_features(src, fails):
    m = re.findall(r"const ARABIC_FEATURES:\s*&\[hb_tag_t\]\s*=\s*&\[(.*?)\];", src, re.S)
    if len(m) == 1:
        body = strip_comments(m[0])
        tags = re.findall(r'hb_tag_t::from_bytes\(b"(.{4})"\)', body)
        rest = re.sub(r'hb_tag_t::from_bytes\(b"(.{4})"\)', "", body)
        if tags and not rest.replace(",", "").strip():
            return tags
    fails.append(("joining_features", "const ARABIC_FEATURES: &[hb_tag_t] = &[hb_tag_t::from_bytes(b\"....\"), ...]; not found exactly once"))
    return None


def tag_n(t):
    b = t.encode("latin-1")
    return (b[0] << 24) | (b[1] << 16) | (b[2] << 8) | b[3]


def table_gen(repo, fails):
    g = Gen("JoiningTable")
    g.header("STATE_TABLE, action and joining-type numbering, ARABIC_FEATURES order of src/hb/ot_shaper_arabic.rs; CONTEXT_LENGTH of buffer.rs")
    src = read(repo, "src/hb/ot_shaper_arabic.rs")
    actions = parse_actions(src, fails)
    jtypes = parse_jtypes(src, fails)
    table, width = parse_state_table(src, actions, fails)
    feats = parse_features(src, fails)
    for a in ACTIONS:
        g.defN("act_" + a, actions[a] if actions else 0)
    for j in JTYPES:
        g.defN(JT_COQ[j], jtypes[j] if jtypes else 0)
    g.raw("(* rows = states; columns = joining type index; entry = (prev_action, curr_action, next_state) *)")
    if table:
        rows = ["    [%s]" % "; ".join("(%d, %d, %d)" % e for e in row) for row in table]
        g.raw("Definition state_table : list (list (N * N * N)) :=\n  [\n%s\n  ]." % ";\n".join(rows))
    else:
        g.raw("Definition state_table : list (list (N * N * N)) := [].")
    g.defN("state_table_width", width)
    g.raw("(* ARABIC_FEATURES[i] as big-endian tag values, in source order: %s *)" % (" ".join(feats) if feats else "GUARD FAILED"))
    g.defNlist("arabic_features", [tag_n(t) for t in feats] if feats else [])
    bsrc = read(repo, "src/hb/buffer.rs")
    m = re.findall(r"const CONTEXT_LENGTH:\s*usize\s*=\s*(\d+)\s*;", bsrc)
    flat = re.sub(r"\s+", " ", strip_comments(bsrc))
    pre_ok = len(re.findall(r"fn set_pre_context\(&mut self, text: &str\) \{ self\.clear_context\(0\); for \((\w+), (\w+)\) in text\.chars\(\)\.rev\(\)\.enumerate\(\)\.take\(CONTEXT_LENGTH\) \{ self\.context\[0\]\[\1\] = \2; self\.context_len\[0\] \+= 1; \} \}", flat)) == 1
    post_ok = len(re.findall(r"fn set_post_context\(&mut self, text: &str\) \{ self\.clear_context\(1\); for \((\w+), (\w+)\) in text\.chars\(\)\.enumerate\(\)\.take\(CONTEXT_LENGTH\) \{ self\.context\[1\]\[\1\] = \2; self\.context_len\[1\] \+= 1; \} \}", flat)) == 1
    if len(m) == 1 and pre_ok and post_ok:
        g.defN("context_length", int(m[0]))
    else:
        fails.append(("joining_context_length", "buffer.rs: CONTEXT_LENGTH / set_pre_context (reversed, truncated) / set_post_context (truncated) not in the expected shape"))
        g.defN("context_length", 0)
    return g


def types_gen(repo, fails):
    """char -> raw joining type (X where the table has no entry), as maximal runs covering 0..0x10FFFF."""
    g = Gen("JoiningTypes")
    g.header("joining_type() of src/hb/ot_shaper_arabic_table.rs evaluated by the translator into runs (lo, hi, type index) that partition 0..0x10FFFF")
    src = read(repo, "src/hb/ot_shaper_arabic_table.rs")
    asrc = read(repo, "src/hb/ot_shaper_arabic.rs")
    fsnap = list(fails)
    jtypes = parse_jtypes(asrc, [])
    runs = []
    try:
        if jtypes is None:
            raise ValueError("joining type enum not parsed")
        m = re.search(r"use super::ot_shaper_arabic::hb_arabic_joining_type_t::\{(.*?)\};", src, re.S)
        alias = {}
        for it in [x.strip() for x in m.group(1).split(",") if x.strip()]:
            if it == "self":
                continue
            mm = re.fullmatch(r"(\w+)(?:\s+as\s+(\w+))?", it)
            alias[mm.group(2) or mm.group(1)] = mm.group(1)
        tm = re.findall(r"pub const JOINING_TABLE:\s*&\[hb_arabic_joining_type_t\]\s*=\s*&\[(.*?)\];", src, re.S)
        if len(tm) != 1:
            raise ValueError("JOINING_TABLE not found exactly once")
        syms = [x.strip() for x in strip_comments(tm[0]).split(",") if x.strip()]
        tab = [jtypes[alias[s]] for s in syms]
        offs = {name: int(v) for name, v in re.findall(r"const (JOINING_OFFSET_0X[0-9A-Fa-f]+):\s*usize\s*=\s*(\d+);", src)}
        fm = re.findall(r"pub fn joining_type\(u: char\) -> hb_arabic_joining_type_t \{(.*?)\n\}", src, re.S)
        if len(fm) != 1:
            raise ValueError("fn joining_type not found exactly once")
        body = strip_comments(fm[0])
        if not re.search(r"let u = u as u32;\s*match u >> 12 \{", body) or not re.search(r"_ => \{\}\s*\}\s*X\s*$", body):
            raise ValueError("fn joining_type: unexpected frame (match u >> 12 ... X)")
        arms = re.findall(r"(0x[0-9A-Fa-f]+)\s*=>\s*\{(.*?)\n        \}", body, re.S)
        cover = {}
        n_if = 0
        blocks = []
        for page, abody in arms:
            page = int(page, 16)
            ifs = re.findall(r"if \((0x[0-9A-Fa-f]+)\.\.=(0x[0-9A-Fa-f]+)\)\.contains\(&u\) \{\s*return JOINING_TABLE\[u as usize - (0x[0-9A-Fa-f]+) \+ (JOINING_OFFSET_0X[0-9A-Fa-f]+)\];\s*\}", abody)
            rest = re.sub(r"if \((0x[0-9A-Fa-f]+)\.\.=(0x[0-9A-Fa-f]+)\)\.contains\(&u\) \{\s*return JOINING_TABLE\[u as usize - (0x[0-9A-Fa-f]+) \+ (JOINING_OFFSET_0X[0-9A-Fa-f]+)\];\s*\}", "", abody)
            if rest.strip():
                raise ValueError("fn joining_type: unexpected code in arm 0x%X: %r" % (page, rest.strip()[:50]))
            for lo, hi, base, off in ifs:
                lo, hi, base = int(lo, 16), int(hi, 16), int(base, 16)
                n_if += 1
                blocks.append((offs[off], lo, hi, base))
                for u in range(lo, hi + 1):
                    if (u >> 12) != page or u in cover:
                        continue  # unreachable in this arm / an earlier `if` of the arm already returned
                    idx = u - base + offs[off]
                    if idx < 0 or idx >= len(tab):
                        raise ValueError("index out of table for U+%04X" % u)
                    cover[u] = tab[idx]
        # the blocks tile the table: each block starts where the previous one ended, is indexed from its own
        # first code point, and the last one ends at the end of the table (a bound that is off by one, or a
        # block that reads its neighbour's entries, breaks this)
        blocks.sort()
        pos = 0
        for o, lo, hi, base in blocks:
            if o != pos or base != lo or hi < lo:
                raise ValueError("joining table blocks do not tile the table at offset %d (block U+%04X..U+%04X, base U+%04X, expected offset %d)" % (o, lo, hi, base, pos))
            pos = o + (hi - lo + 1)
        if pos != len(tab):
            raise ValueError("joining table blocks cover %d entries, the table has %d" % (pos, len(tab)))
        if n_if != body.count("return JOINING_TABLE"):
            raise ValueError("fn joining_type: %d returns, %d parsed" % (body.count("return JOINING_TABLE"), n_if))
        X = jtypes["X"]
        lo = 0
        cur = cover.get(0, X)
        for u in range(1, 0x110000):
            c = cover.get(u, X)
            if c != cur:
                runs.append((lo, u - 1, cur))
                lo, cur = u, c
        runs.append((lo, 0x10FFFF, cur))
    except Exception as ex:  # shape guard
        del fails[:]
        fails.extend(fsnap)
        fails.append(("joining_type_table", "ot_shaper_arabic_table.rs not in the expected shape: %s" % (ex,)))
        runs = []
    g.raw("Definition joining_runs : list (N * N * N) :=\n  [%s]." % chunk(["(%d, %d, %d)" % r for r in runs], 6))
    g.defN("joining_runs_count", len(runs))
    return g


def run(repo, fails):
    return [table_gen(repo, fails), types_gen(repo, fails)]
