"""tr_lang: /repo/src/hb/{tag_table,tag,common,ot_layout}.rs -> coq/Gen/LangTable.v  (property C18)

Extracted (each with a shape guard; on failure the value becomes empty / a sentinel and the guard name is
reported, nothing stale is kept):
  lang_table_src        OPEN_TYPE_LANGUAGES, live rows only, source order            (tag_table.rs)
  complex_prelude_src / complex_arms_src   the rules of tags_from_complex_language      (tag_table.rs)
  strncmp_bytes         whether tag_table::strncmp compares byte slices (true) or str slices (false)
  registry_len_adjust   the `- 1` (1) or nothing (0) after `LANGUAGES.len() - idx`      (tag.rs)
  lang_cmp_bytes        whether tag::lang_cmp compares byte slices or str slices        (tag.rs)
  new_script_tags, no_gen3_tag, old_script_special                                      (tag.rs)
  language_lowercases   Language::from_str lowercases                                    (common.rs)
  known_scripts, script_aliases, script_norm_* masks                                     (common.rs)
  script_fallbacks      tags tried by select_script after the script's own, in order      (ot_layout.rs)
  lang_fallback         the tag tried by select_script_language after the language's own  (ot_layout.rs)
"""
import re

from tr_util import Gen, read, chunk


def tag_u32(b):
    assert len(b) == 4
    return (b[0] << 24) | (b[1] << 16) | (b[2] << 8) | b[3]


def tagstr(s):
    return tag_u32(s.encode("latin-1"))


def strip_comments(src):
    return re.sub(r"//[^\n]*", "", src)


def norm_ws(s):
    """Collapse whitespace runs outside string literals (tags such as "yi  " keep their spaces)."""
    parts = re.split(r'("(?:[^"\\]|\\.)*")', s)
    for i in range(0, len(parts), 2):
        parts[i] = re.sub(r"\s+", " ", parts[i])
    return "".join(parts).strip()


def coq_str(s):
    # registry / rule strings are printable ASCII without quotes; guard elsewhere
    return '"%s"' % s.replace('"', '""')


def fn_body(src, header_re):
    """Text of the brace-balanced body following the first match of header_re (which must end before '{')."""
    ms = list(re.finditer(header_re, src))
    if len(ms) != 1:
        return None
    i = src.find("{", ms[0].end())
    if i < 0:
        return None
    depth = 0
    j = i
    in_str = False
    while j < len(src):
        c = src[j]
        if in_str:
            if c == "\\":
                j += 1
            elif c == '"':
                in_str = False
        elif c == '"':
            in_str = True
        elif c == "'" and j + 2 < len(src) and src[j + 2] == "'":
            j += 2
        elif c == "{":
            depth += 1
        elif c == "}":
            depth -= 1
            if depth == 0:
                return src[i + 1:j]
        j += 1
    return None


# ---------------------------------------------------------------- registry

ROW = re.compile(r'^\s*LangTag\s*\{\s*language:\s*"([^"\\]*)"\s*,\s*tag:\s*(?:Tag::from_bytes\(b"([^"\\]{4})"\)|Tag\((0)\))\s*\}\s*,?\s*(?://.*)?$')


def registry(src, fails):
    m = re.search(r"pub const OPEN_TYPE_LANGUAGES\s*:\s*&\[LangTag\]\s*=\s*&\[\n(.*?)\n\];", src, re.S)
    if not m:
        fails.append(("lang_table", "OPEN_TYPE_LANGUAGES array not found"))
        return []
    rows = []
    for ln in m.group(1).split("\n"):
        t = ln.strip()
        if not t or t.startswith("//"):
            continue
        mm = ROW.match(ln)
        if not mm:
            fails.append(("lang_table", "row does not parse: %r" % ln[:120]))
            return []
        lang = mm.group(1)
        if not re.fullmatch(r"[ -~]+", lang):
            fails.append(("lang_table", "language is not printable ASCII: %r" % lang))
            return []
        tag = 0 if mm.group(3) else tagstr(mm.group(2))
        rows.append((lang, tag))
    if len(rows) <= 1000:
        fails.append(("lang_table", "only %d live rows (expected > 1000)" % len(rows)))
        return []
    return rows


# ---------------------------------------------------------------- complex matcher

S = r'"([^"\\]*)"'
COND = [
    ("CStrn", re.compile(r'strncmp\(&language\[1\.\.\], %s, (\d+)\) && subtag_matches\(language, %s\)' % (S, S))),
    ("CLang", re.compile(r'lang_matches\(&language\[1\.\.\], %s\)' % S)),
    ("CExact", re.compile(r'&language\[1\.\.\] == %s' % S)),
    ("CSub", re.compile(r'subtag_matches\(language, %s\)' % S)),
]
ACT1 = re.compile(r'tags\.push\(Tag::from_bytes\(b"([^"\\]{4})"\)\); return true;')
ACTN = re.compile(r'let possible_tags = &\[((?: ?Tag::from_bytes\(b"[^"\\]{4}"\),?)+) ?\]; tags\.extend_from_slice\(possible_tags\); return true;')


class P:
    def __init__(self, text):
        self.t = text
        self.i = 0

    def ws(self):
        while self.i < len(self.t) and self.t[self.i] == " ":
            self.i += 1

    def lit(self, s):
        self.ws()
        if self.t.startswith(s, self.i):
            self.i += len(s)
            return True
        return False

    def rx(self, r):
        self.ws()
        m = r.match(self.t, self.i)
        if m:
            self.i = m.end()
        return m

    def rule(self):
        """`if COND { ACTION }` -> (kind, args, tags) or None (position restored)."""
        save = self.i
        if not self.lit("if "):
            self.i = save
            return None
        cond = None
        for kind, r in COND:
            m = self.rx(r)
            if m:
                cond = (kind, m.groups())
                break
        if cond is None or not self.lit("{"):
            self.i = save
            return None
        m = self.rx(ACT1)
        if m:
            tags = [tagstr(m.group(1))]
        else:
            m = self.rx(ACTN)
            if not m:
                self.i = save
                return None
            tags = [tagstr(x) for x in re.findall(r'b"([^"\\]{4})"', m.group(1))]
        if not self.lit("}"):
            self.i = save
            return None
        return (cond[0], cond[1], tags)


def complex_rules(src, fails):
    body = fn_body(src, r"pub fn tags_from_complex_language\(language: &str, tags: &mut smallvec::SmallVec<\[Tag; 3\]>\) -> bool")
    if body is None:
        fails.append(("complex_rules", "tags_from_complex_language not found exactly once with the expected signature"))
        return [], []
    p = P(norm_ws(strip_comments(body)))
    prelude = []
    while True:
        r = p.rule()
        if r is None:
            break
        if r[0] != "CSub":
            fails.append(("complex_rules", "prelude rule is not a subtag_matches rule"))
            return [], []
        prelude.append(r)
    if not p.lit("match language.as_bytes()[0] {"):
        fails.append(("complex_rules", "expected `match language.as_bytes()[0] {` after %d prelude rules, at: %r" % (len(prelude), p.t[p.i:p.i + 80])))
        return [], []
    arms = []
    armre = re.compile(r"b'([ -~])' => \{")
    while True:
        m = p.rx(armre)
        if not m:
            break
        rules = []
        while True:
            r = p.rule()
            if r is None:
                break
            if r[0] == "CSub":
                fails.append(("complex_rules", "bare subtag_matches rule inside an arm"))
                return [], []
            rules.append(r)
        if not p.lit("}"):
            fails.append(("complex_rules", "unparsed text in arm %r: %r" % (m.group(1), p.t[p.i:p.i + 100])))
            return [], []
        arms.append((ord(m.group(1)), rules))
    if not (p.lit("_ => {}") and p.lit("}") and p.lit("false")) or p.t[p.i:].strip():
        fails.append(("complex_rules", "unexpected tail: %r" % p.t[p.i:p.i + 100]))
        return [], []
    if len(set(a for a, _ in arms)) != len(arms):
        fails.append(("complex_rules", "duplicate match arm"))
        return [], []
    nrules = len(prelude) + sum(len(r) for _, r in arms)
    if nrules < 50:
        fails.append(("complex_rules", "only %d rules (expected >= 50)" % nrules))
        return [], []
    for r in prelude + [x for _, rs in arms for x in rs]:
        for s in r[1]:
            if not re.fullmatch(r"[ -~]*", s):
                fails.append(("complex_rules", "non printable-ASCII string in a rule"))
                return [], []
    return prelude, arms


HELPERS = {
    "subtag_matches": (
        r"fn subtag_matches\(language: &str, subtag: &str\) -> bool",
        ["for (i, _) in language.match_indices(subtag) { if let Some(c) = language.as_bytes().get(i + subtag.len()) { "
         "if !c.is_ascii_alphanumeric() { return true; } } else { return true; } } false"]),
    "lang_matches": (
        r"fn lang_matches\(language: &str, spec: &str\) -> bool",
        ["if language.starts_with(spec) { return language.len() == spec.len() || language.as_bytes().get(spec.len()) == Some(&b'-'); } false"]),
}
STRNCMP_HEAD = r"fn strncmp\(s1: &str, s2: &str, n: usize\) -> bool"
STRNCMP_PRE = "let n1 = core::cmp::min(n, s1.len()); let n2 = core::cmp::min(n, s2.len()); "
STRNCMP_STR = ["&s1[..n1] == &s2[..n2]", "s1[..n1] == s2[..n2]"]
STRNCMP_BYTES = ["&s1.as_bytes()[..n1] == &s2.as_bytes()[..n2]", "s1.as_bytes()[..n1] == s2.as_bytes()[..n2]"]


def complex_helpers(src, fails):
    """Pinned bodies of the three helper functions; returns strncmp_bytes (None when unknown)."""
    for name, (head, bodies) in HELPERS.items():
        b = fn_body(src, head)
        if b is None or norm_ws(strip_comments(b)) not in bodies:
            fails.append(("complex_helper_" + name, "body of tag_table::%s differs from the modelled one" % name))
    b = fn_body(src, STRNCMP_HEAD)
    if b is not None:
        t = norm_ws(strip_comments(b))
        if t in [STRNCMP_PRE + x for x in STRNCMP_STR]:
            return False
        if t in [STRNCMP_PRE + x for x in STRNCMP_BYTES]:
            return True
    fails.append(("complex_helper_strncmp", "body of tag_table::strncmp differs from the modelled ones"))
    return None


# ---------------------------------------------------------------- tag.rs

def tag_rs(src, fails):
    out = {}
    # off-by-one expression
    ms = re.findall(r"let len = core::cmp::min\(\s*tags\.left\(\)\s*,\s*LANGUAGES\.len\(\)\s*-\s*idx\s*(-\s*1\s*)?\)\s*;", src)
    if len(ms) == 1:
        out["adjust"] = 1 if ms[0] else 0
    else:
        fails.append(("registry_len_adjust", "`let len = core::cmp::min(tags.left(), LANGUAGES.len() - idx [- 1]);` not found exactly once"))
        out["adjust"] = None
    # lang_cmp final expression
    b = fn_body(src, r"fn lang_cmp\(s1: &str, s2: &str\) -> core::cmp::Ordering")
    out["lang_cmp_bytes"] = None
    if b is not None:
        t = norm_ws(strip_comments(b))
        pre = ("let da = s1.find('-').unwrap_or(s1.len()); let db = s2.find('-').unwrap_or(s2.len()); "
               "let n = core::cmp::max(da, db); let ea = core::cmp::min(n, s1.len()); let eb = core::cmp::min(n, s2.len()); ")
        if t == pre + "s1[..ea].cmp(&s2[..eb])":
            out["lang_cmp_bytes"] = False
        elif t in (pre + "s1.as_bytes()[..ea].cmp(&s2.as_bytes()[..eb])", pre + "s1.as_bytes()[..ea].cmp(s2.as_bytes()[..eb].as_ref())"):
            out["lang_cmp_bytes"] = True
    if out["lang_cmp_bytes"] is None:
        fails.append(("lang_cmp_shape", "body of tag::lang_cmp differs from the modelled ones"))
    # new_tag_from_script
    out["new"] = []
    b = fn_body(src, r"fn new_tag_from_script\(script: Script\) -> Option<hb_tag_t>")
    ok = False
    if b is not None:
        t = norm_ws(strip_comments(b))
        m = re.fullmatch(r"match script \{ ((?:script::[A-Z0-9_]+ => Some\(hb_tag_t::from_bytes\(b\"[^\"\\]{4}\"\)\), )+)_ => None, \}", t)
        if m:
            out["new"] = re.findall(r'script::([A-Z0-9_]+) => Some\(hb_tag_t::from_bytes\(b"([^"\\]{4})"\)\)', m.group(1))
            ok = True
    if not ok:
        fails.append(("new_script_tags", "new_tag_from_script is not a plain match of script constants"))
    # old_tag_from_script
    out["old"] = []
    b = fn_body(src, r"fn old_tag_from_script\(script: Script\) -> hb_tag_t")
    ok = False
    if b is not None:
        t = norm_ws(strip_comments(b))
        m = re.fullmatch(r"match script \{ ((?:script::[A-Z0-9_]+ => hb_tag_t::from_bytes\(b\"[^\"\\]{4}\"\), )*)_ => hb_tag_t\(script\.tag\(\)\.as_u32\(\) \| 0x20000000\), \}", t)
        if m:
            out["old"] = re.findall(r'script::([A-Z0-9_]+) => hb_tag_t::from_bytes\(b"([^"\\]{4})"\)', m.group(1))
            ok = True
    if not ok:
        fails.append(("old_script_special", "old_tag_from_script is not special arms + `script.tag() | 0x20000000`"))
    # the generation-3 exclusion
    ms = re.findall(r'if tag != hb_tag_t::from_bytes\(b"([^"\\]{4})"\) \{\s*let mut tag3 = tag\.to_bytes\(\);\s*tag3\[3\] = b\'3\';', src)
    if len(ms) == 1:
        out["nogen3"] = tagstr(ms[0])
    else:
        fails.append(("no_gen3_tag", "the 'mym2' exclusion of all_tags_from_script not found exactly once"))
        out["nogen3"] = 0
    return out


# ---------------------------------------------------------------- common.rs / ot_layout.rs

def common_rs(src, fails):
    out = {}
    b = fn_body(src, r"impl core::str::FromStr for Language \{\s*type Err = &'static str;\s*fn from_str\(s: &str\) -> Result<Self, Self::Err>")
    out["lower"] = None
    if b is not None:
        t = norm_ws(strip_comments(b))
        if t == 'if !s.is_empty() { Ok(Language(s.to_ascii_lowercase())) } else { Err("invalid language") }':
            out["lower"] = True
        elif t in ('if !s.is_empty() { Ok(Language(s.to_string())) } else { Err("invalid language") }',
                   'if !s.is_empty() { Ok(Language(String::from(s))) } else { Err("invalid language") }',
                   'if !s.is_empty() { Ok(Language(s.into())) } else { Err("invalid language") }'):
            out["lower"] = False
    if out["lower"] is None:
        fails.append(("language_from_str", "Language::from_str differs from the modelled shapes"))
    consts = re.findall(r'^\s*pub const ([A-Z0-9_]+): Script = Script::from_bytes\(b"([^"\\]{4})"\);', src, re.M)
    if len(consts) < 150 or len(set(n for n, _ in consts)) != len(consts):
        fails.append(("known_scripts", "only %d script constants found (expected >= 150, distinct)" % len(consts)))
        consts = []
    out["scripts"] = consts
    # from_iso15924_tag
    out["aliases"] = []
    b = fn_body(src, r"pub fn from_iso15924_tag\(tag: Tag\) -> Option<Script>")
    ok = False
    if b is not None:
        t = norm_ws(strip_comments(b))
        m = re.fullmatch(
            r"if tag\.is_null\(\) \{ return None; \} let tag = Tag\(\(tag\.as_u32\(\) & (0x[0-9A-Fa-f]+)\) \| (0x[0-9A-Fa-f]+)\); "
            r"match &tag\.to_bytes\(\) \{ ((?:b\"[^\"\\]{4}\"(?: \| b\"[^\"\\]{4}\")* => return Some\(script::[A-Z0-9_]+\), )*)_ => \{\} \} "
            r"if tag\.as_u32\(\) & (0x[0-9A-Fa-f]+) == (0x[0-9A-Fa-f]+) \{ Some\(Script\(tag\)\) \} else \{ Some\(script::UNKNOWN\) \}", t)
        if m:
            out["norm"] = [int(m.group(1), 16), int(m.group(2), 16), int(m.group(4), 16), int(m.group(5), 16)]
            for arm in re.finditer(r'((?:b"[^"\\]{4}"(?: \| )?)+) => return Some\(script::([A-Z0-9_]+)\)', m.group(3)):
                for a in re.findall(r'b"([^"\\]{4})"', arm.group(1)):
                    out["aliases"].append((a, arm.group(2)))
            ok = True
    if not ok:
        fails.append(("script_from_iso", "Script::from_iso15924_tag differs from the modelled shape"))
        out["norm"] = [0, 0, 0, 0]
    return out


def layout_rs(src, fails):
    out = {"script_fallbacks": [], "lang_fallback": 0}
    names = {"hb_tag_t::default_script()": tagstr("DFLT"), "hb_tag_t::default_language()": tagstr("dflt")}
    b = fn_body(src, r"fn select_script\(&self, script_tags: &\[hb_tag_t\]\) -> Option<\(bool, ScriptIndex, hb_tag_t\)>(?= \{)")
    ok = False
    if b is not None:
        t = norm_ws(strip_comments(b))
        m = re.fullmatch(
            r"for &tag in script_tags \{ if let Some\(index\) = self\.scripts\.index\(tag\) \{ return Some\(\(true, index, tag\)\); \} \} "
            r"for &tag in &\[ ((?:[^,\]]+, )+)\] \{ if let Some\(index\) = self\.scripts\.index\(tag\) \{ return Some\(\(false, index, tag\)\); \} \} None", t)
        if m:
            ok = True
            for e in [x.strip() for x in m.group(1).split(",") if x.strip()]:
                mm = re.fullmatch(r'hb_tag_t::from_bytes\(b"([^"\\]{4})"\)', e)
                if e in names:
                    out["script_fallbacks"].append(names[e])
                elif mm:
                    out["script_fallbacks"].append(tagstr(mm.group(1)))
                else:
                    ok = False
    if not ok:
        out["script_fallbacks"] = []
        fails.append(("script_fallbacks", "select_script differs from the modelled shape (own tags, then a literal fallback list)"))
    b = fn_body(src, r"fn select_script_language\(\s*&self,\s*script_index: ScriptIndex,\s*lang_tags: &\[hb_tag_t\],\s*\) -> Option<LanguageIndex>(?= \{)")
    ok = False
    if b is not None:
        t = norm_ws(strip_comments(b))
        m = re.fullmatch(
            r"let script = self\.scripts\.get\(script_index\)\?; for &tag in lang_tags \{ if let Some\(index\) = script\.languages\.index\(tag\) \{ return Some\(index\); \} \} "
            r"if let Some\(index\) = script\.languages\.index\(([^)]+\(\))\) \{ return Some\(index\); \} None", t)
        if m and m.group(1) in names:
            out["lang_fallback"] = names[m.group(1)]
            ok = True
    if not ok:
        fails.append(("lang_fallback", "select_script_language differs from the modelled shape"))
    return out


# ---------------------------------------------------------------- emit

def emit_rule(r):
    kind, args, tags = r
    tl = "[%s]" % "; ".join(str(t) for t in tags)
    if kind == "CStrn":
        return "(CStrn (s %s) %s (s %s), %s)" % (coq_str(args[0]), args[1], coq_str(args[2]), tl)
    return "(%s (s %s), %s)" % (kind, coq_str(args[0]), tl)


def bool_(b):
    return "true" if b else "false"


def run(repo, fails):
    g = Gen("LangTable")
    g.lines.append("(* Gen/LangTable.v — GENERATED by translator/tr_lang.py from src/hb/tag_table.rs, tag.rs, common.rs, ot_layout.rs. Do not edit. *)")
    g.lines.append("From Coq Require Import List NArith String.")
    g.lines.append("From RB Require Import Base.Bytes.")
    g.lines.append("Import ListNotations.")
    g.lines.append("Local Open Scope N_scope.")
    g.lines.append("Local Open Scope string_scope.")
    g.lines.append("")
    tt = read(repo, "src/hb/tag_table.rs")
    rows = registry(tt, fails)
    per = 400
    names = []
    for k in range(0, len(rows), per):
        nm = "lang_table_src_%d" % (k // per)
        names.append(nm)
        g.raw("Definition %s : list (string * N) :=\n  [%s]." % (nm, chunk(["(%s,%d)" % (coq_str(l), t) for l, t in rows[k:k + per]], 6)))
    g.raw("Definition lang_table : list (list N * N) :=\n  Eval vm_compute in map (fun p => (s (fst p), snd p)) (%s)." % (" ++ ".join(names) or "[]"))
    g.raw("Definition lang_table_rows : N := %d." % len(rows))
    prelude, arms = complex_rules(tt, fails)
    sb = complex_helpers(tt, fails)
    g.raw("")
    g.raw("(* rules of tags_from_complex_language: (condition, tags pushed) *)")
    g.raw("Definition complex_prelude : list (ccond * list N) :=\n  Eval vm_compute in [%s]." % ";\n   ".join(emit_rule(r) for r in prelude))
    g.raw("Definition complex_arms : list (N * list (ccond * list N)) :=\n  Eval vm_compute in [%s]." % ";\n   ".join(
        "(%d, [%s])" % (a, ";\n     ".join(emit_rule(r) for r in rs)) for a, rs in arms))
    # when the helper shape is unknown the model takes the checked (str) reading
    g.raw("Definition strncmp_bytes : bool := %s." % bool_(bool(sb)))
    t = tag_rs(read(repo, "src/hb/tag.rs"), fails)
    g.raw("")
    # sentinel for an unknown adjust: the whole table is skipped (every registry theorem fails)
    g.raw("Definition registry_len_adjust : N := %d." % (t["adjust"] if t["adjust"] is not None else len(rows) + 1))
    g.raw("Definition lang_cmp_bytes : bool := %s." % bool_(bool(t["lang_cmp_bytes"])))
    c = common_rs(read(repo, "src/hb/common.rs"), fails)
    cmap = dict(c["scripts"])
    new = []
    for n, tg in t["new"]:
        if n not in cmap:
            fails.append(("new_script_tags", "unknown script constant %s" % n))
            new = []
            break
        new.append((tagstr(cmap[n]), tagstr(tg)))
    old = []
    for n, tg in t["old"]:
        if n not in cmap:
            fails.append(("old_script_special", "unknown script constant %s" % n))
            old = []
            break
        old.append((tagstr(cmap[n]), tagstr(tg)))
    ali = []
    for a, n in c["aliases"]:
        if n not in cmap:
            fails.append(("script_from_iso", "unknown script constant %s" % n))
            ali = []
            break
        ali.append((tagstr(a), tagstr(cmap[n])))
    pr = lambda xs: "[%s]" % chunk(["(%d,%d)" % x for x in xs], 8)
    g.raw("Definition new_script_tags : list (N * N) :=\n  %s." % pr(new))
    g.raw("Definition no_gen3_tag : N := %d." % t["nogen3"])
    g.raw("Definition old_script_special : list (N * N) :=\n  %s." % pr(old))
    g.raw("Definition language_lowercases : bool := %s." % bool_(bool(c["lower"])))
    g.raw("Definition script_aliases : list (N * N) :=\n  %s." % pr(ali))
    g.raw("Definition script_norm_and : N := %d.\nDefinition script_norm_or : N := %d.\nDefinition script_wf_mask : N := %d.\nDefinition script_wf_val : N := %d." % tuple(c["norm"]))
    g.raw("Definition script_unknown : N := %d." % (tagstr(cmap["UNKNOWN"]) if "UNKNOWN" in cmap else 0))
    g.defNlist("known_scripts", [tagstr(v) for _, v in c["scripts"]], 12)
    lay = layout_rs(read(repo, "src/hb/ot_layout.rs"), fails)
    g.defNlist("script_fallbacks", lay["script_fallbacks"])
    g.raw("Definition lang_fallback : N := %d." % lay["lang_fallback"])
    return [g]
