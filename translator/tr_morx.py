"""Translator for C17: the rearrangement verb MAP table and the ligature-action masks of
src/hb/aat_layout_morx_table.rs -> coq/Gen/MorxConsts.v."""
import re

from tr_util import Gen, read


def run(repo, fails):
    g = Gen("MorxConsts")
    g.header("morx constants extracted from src/hb/aat_layout_morx_table.rs (regenerated on every run)")
    src = read(repo, "src/hb/aat_layout_morx_table.rs")
    m = re.search(r"const MAP: \[u8; 16\] = \[(.*?)\];", src, re.S)
    vals = []
    if m:
        body = re.sub(r"//[^\n]*", "", m.group(1))
        vals = [int(v, 0) for v in re.findall(r"0x[0-9A-Fa-f]+|\b\d+\b", body)]
    if len(vals) != 16:
        fails.append(("morx_rearrangement_map", "const MAP: [u8; 16] not found or not 16 entries"))
        vals = (vals + [0] * 16)[:16]
    g.defNlist("morx_rearrangement_map", vals)
    consts = {}
    for name in ("LIG_ACTION_LAST", "LIG_ACTION_STORE", "LIG_ACTION_OFFSET", "SET_MARK", "DONT_ADVANCE", "PERFORM_ACTION",
                 "MARK_FIRST", "MARK_LAST", "VERB", "CURRENT_INSERT_BEFORE", "MARKED_INSERT_BEFORE", "CURRENT_INSERT_COUNT",
                 "MARKED_INSERT_COUNT", "CURRENT_IS_KASHIDA_LIKE", "MARKED_IS_KASHIDA_LIKE"):
        mm = re.findall(r"const %s: u(?:16|32) = (0x[0-9A-Fa-f]+|\d+);" % name, src)
        if mm:
            consts[name] = sorted(set(int(v, 0) for v in mm))
    for name in ("LIG_ACTION_LAST", "LIG_ACTION_STORE", "LIG_ACTION_OFFSET", "VERB", "MARK_FIRST", "MARK_LAST"):
        if name not in consts or len(consts[name]) != 1:
            fails.append(("morx_" + name.lower(), "constant %s not found (or not unique)" % name))
        g.defN("morx_" + name.lower(), (consts.get(name) or [0])[0])
    m = re.search(r"const LIGATURE_MAX_MATCHES: usize = (\d+);", src)
    if not m:
        fails.append(("morx_ligature_max_matches", "LIGATURE_MAX_MATCHES not found"))
    g.defN("morx_ligature_max_matches", int(m.group(1)) if m else 0)
    return [g]
