"""Translator for C17 (chain flag compilation): the OpenType-tag -> AAT (feature type, selector to enable,
selector to disable) table `feature_mappings` of src/hb/aat_layout.rs and the feature type / selector
constants that aat_map.rs and aat_layout_morx_table.rs compare with -> coq/Gen/MorxFeatMap.v.
Tags are big-endian u32.  The table must stay sorted by tag (add_feature binary-searches it): guarded."""
import re

from tr_util import Gen, read


def run(repo, fails):
    g = Gen("MorxFeatMap")
    g.header("AAT feature mapping table extracted from src/hb/aat_layout.rs (regenerated on every run)")
    src = read(repo, "src/hb/aat_layout.rs")
    consts = {k: int(v, 0) for k, v in re.findall(r"pub const (HB_AAT_LAYOUT_FEATURE_[A-Z0-9_]+): u8 = (0x[0-9A-Fa-f]+|\d+);", src)}

    def val(tok):
        tok = tok.strip()
        if re.fullmatch(r"0x[0-9A-Fa-f]+|\d+", tok):
            return int(tok, 0)
        return consts.get(tok)

    rows = []
    bad = None
    m = re.search(r"pub const feature_mappings: &\[hb_aat_feature_mapping_t\] = &\[(.*?)\n\];", src, re.S)
    if not m:
        bad = "`pub const feature_mappings: &[hb_aat_feature_mapping_t] = &[...]` not found"
    else:
        entries = re.findall(r"hb_aat_feature_mapping_t::new\(([^)]*)\)", m.group(1))
        for e in entries:
            parts = [p.strip() for p in e.split(",")]
            tm = re.fullmatch(r'b"(....)"', parts[0]) if len(parts) == 4 else None
            vals = [val(p) for p in parts[1:]] if tm else [None]
            if not tm or any(v is None for v in vals):
                bad = "entry not understood: " + e[:80]
                break
            t = tm.group(1).encode()
            rows.append((int.from_bytes(t, "big"), vals[0], vals[1], vals[2]))
        if not bad and len(rows) < 50:
            bad = "only %d entries" % len(rows)
        if not bad and any(rows[i][0] >= rows[i + 1][0] for i in range(len(rows) - 1)):
            bad = "table not strictly sorted by tag (binary search precondition)"
    if bad:
        fails.append(("morx_feature_mappings", bad))
        rows = []
    g.raw("(* (OpenType tag, AAT feature type, selector to enable, selector to disable) *)\n")
    g.raw("Definition aat_feature_mappings : list (N * N * N * N) :=\n  [%s].\n" %
          ";\n   ".join("(%d, %d, %d, %d)" % r for r in rows))
    for name, cname in (("aat_type_letter_case", "HB_AAT_LAYOUT_FEATURE_TYPE_LETTER_CASE"),
                        ("aat_type_lower_case", "HB_AAT_LAYOUT_FEATURE_TYPE_LOWER_CASE"),
                        ("aat_type_character_alternatives", "HB_AAT_LAYOUT_FEATURE_TYPE_CHARACTER_ALTERNATIVES"),
                        ("aat_selector_small_caps", "HB_AAT_LAYOUT_FEATURE_SELECTOR_SMALL_CAPS"),
                        ("aat_selector_lower_case_small_caps", "HB_AAT_LAYOUT_FEATURE_SELECTOR_LOWER_CASE_SMALL_CAPS")):
        if cname not in consts:
            fails.append(("morx_" + name, "constant %s not found" % cname))
        g.defN(name, consts.get(cname, 0))
    return [g]
