"""tr_norm: /repo/src/hb/{unicode_norm,unicode,ot_shaper,ot_shape_normalize}.rs -> coq/Gen/NormTables.v
(the crate's normalization tables and constants) and CPython unicodedata -> coq/Gen/UnicodeSpec.v
(the independent Unicode side: canonical decomposition mapping, combining classes, marks, primary
composites, assigned ranges).  Property C09.

Every extractor has a shape guard; on failure the definition becomes empty/zero and the guard name is
reported, so dependent proofs fail instead of using stale data."""
import glob
import os
import re
import unicodedata as U

from tr_util import Gen, read, chunk

CHUNK = 512


def big_list(g, name, typ, items, per_line=6):
    """Emit a long list literal as chunks l_0 ++ l_1 ++ ... (keeps the parser's recursion shallow)."""
    if not items:
        g.raw("Definition %s : list (%s) := []." % (name, typ))
        return
    parts = []
    for i in range(0, len(items), CHUNK):
        pn = "%s_%d" % (name, i // CHUNK)
        parts.append(pn)
        g.raw("Definition %s : list (%s) :=\n  [%s]." % (pn, typ, chunk(items[i:i + CHUNK], per_line)))
    g.raw("Definition %s : list (%s) := %s." % (name, typ, " ++ ".join(parts)))


def ccc_enum(repo, fails):
    """CanonicalCombiningClass enum values of the unicode-ccc crate version pinned in Cargo.lock."""
    lock = read(repo, "Cargo.lock")
    m = re.search(r'name = "unicode-ccc"\nversion = "([^"]+)"', lock)
    vals = {}
    if m:
        home = os.environ.get("CARGO_HOME", os.path.expanduser("~/.cargo"))
        for p in glob.glob(os.path.join(home, "registry/src/*/unicode-ccc-%s/src/lib.rs" % m.group(1))):
            src = open(p, encoding="utf-8").read()
            e = re.search(r"pub enum CanonicalCombiningClass \{(.*?)\n\}", src, re.S)
            if e:
                for k, v in re.findall(r"(\w+)\s*=\s*(\d+)\s*,", e.group(1)):
                    vals[k] = int(v)
            break
    if len(vals) < 20:
        fails.append(("ccc_enum", "unicode-ccc CanonicalCombiningClass enum not found in the cargo registry"))
    return vals


def crate_tables(repo, fails):
    g = Gen("NormTables")
    g.header("normalization tables and constants of src/hb/unicode_norm.rs, unicode.rs, ot_shaper.rs")
    src = read(repo, "src/hb/unicode_norm.rs")
    # ---- DECOMPOSITION_TABLE: &[(char, char, Option<char>)]
    dec = []
    m = re.search(r"pub const DECOMPOSITION_TABLE: &\[\(char, char, Option<char>\)\] = &\[(.*?)\n\];", src, re.S)
    if m:
        rows = [l.strip() for l in m.group(1).split("\n") if l.strip() and not l.strip().startswith("//")]
        row_re = re.compile(r"\('\\u\{([0-9A-Fa-f]+)\}', '\\u\{([0-9A-Fa-f]+)\}', (None|Some\('\\u\{([0-9A-Fa-f]+)\}'\))\),")
        ok = True
        for r in rows:
            mm = row_re.fullmatch(r)
            if not mm:
                ok = False
                fails.append(("decomposition_table_row", "row does not parse: " + r[:60]))
                break
            b = int(mm.group(4), 16) if mm.group(4) else 0
            if mm.group(4) and b == 0:
                ok = False
                fails.append(("decomposition_table_row", "explicit U+0000 second element"))
                break
            dec.append((int(mm.group(1), 16), int(mm.group(2), 16), b))
        if not ok or len(dec) <= 500:
            if ok:
                fails.append(("decomposition_table", "only %d rows" % len(dec)))
            dec = []
    else:
        fails.append(("decomposition_table", "DECOMPOSITION_TABLE: &[(char, char, Option<char>)] not found"))
    g.raw("(* (ab, (a, b)); b = 0 encodes None (the Rust `unwrap_or('\\0')` in unicode::decompose) *)")
    big_list(g, "DECOMPOSITION_TABLE", "N * (N * N)", ["(%d,(%d,%d))" % r for r in dec])
    # ---- COMPOSITION_TABLE: &[(u64, char)]
    comp = []
    m = re.search(r"pub const COMPOSITION_TABLE: &\[\(u64, char\)\] = &\[(.*?)\n\];", src, re.S)
    if m:
        rows = [l.strip() for l in m.group(1).split("\n") if l.strip() and not l.strip().startswith("//")]
        row_re = re.compile(r"\((\d+), '\\u\{([0-9A-Fa-f]+)\}'\),")
        ok = True
        for r in rows:
            mm = row_re.fullmatch(r)
            if not mm:
                ok = False
                fails.append(("composition_table_row", "row does not parse: " + r[:60]))
                break
            comp.append((int(mm.group(1)), int(mm.group(2), 16)))
        if not ok or len(comp) <= 500:
            if ok:
                fails.append(("composition_table", "only %d rows" % len(comp)))
            comp = []
    else:
        fails.append(("composition_table", "COMPOSITION_TABLE: &[(u64, char)] not found"))
    g.raw("(* (a << 32 | b, ab): the u64 key exactly as in the source; unicode::compose builds the same needle *)")
    big_list(g, "COMPOSITION_TABLE", "N * N", ["(%d,%d)" % r for r in comp])
    # ---- unicode.rs: Hangul constants, modified combining classes
    us = read(repo, "src/hb/unicode.rs")
    consts = {}
    for k, v in re.findall(r"^const ([SLVTN]_(?:BASE|COUNT)): u32 = (0x[0-9A-Fa-f]+|\d+|[A-Z_ *]+);", us, re.M):
        consts[k] = v
    hv = {}
    try:
        for k in ("S_BASE", "L_BASE", "V_BASE", "T_BASE", "L_COUNT", "V_COUNT", "T_COUNT"):
            hv[k] = int(consts[k], 0)
        if re.sub(r"\s", "", consts["N_COUNT"]) != "V_COUNT*T_COUNT" or re.sub(r"\s", "", consts["S_COUNT"]) != "L_COUNT*N_COUNT":
            raise KeyError("N_COUNT/S_COUNT formula")
        hv["N_COUNT"] = hv["V_COUNT"] * hv["T_COUNT"]
        hv["S_COUNT"] = hv["L_COUNT"] * hv["N_COUNT"]
    except (KeyError, ValueError) as ex:
        fails.append(("hangul_constants", "S/L/V/T base/count constants not found: %r" % (ex,)))
        hv = {k: 0 for k in ("S_BASE", "L_BASE", "V_BASE", "T_BASE", "L_COUNT", "V_COUNT", "T_COUNT", "N_COUNT", "S_COUNT")}
    for k in ("S_BASE", "L_BASE", "V_BASE", "T_BASE", "L_COUNT", "V_COUNT", "T_COUNT", "N_COUNT", "S_COUNT"):
        g.defN(k, hv[k])
    enum = ccc_enum(repo, fails)
    mod_consts = {}
    mm = re.search(r"pub mod modified_combining_class \{(.*?)\n\}", us, re.S)
    if mm:
        for k, v in re.findall(r"pub const (CCC\d+): u8 = (\d+);", mm.group(1)):
            mod_consts[k] = int(v)
    table = []
    mm = re.search(r"const MODIFIED_COMBINING_CLASS: &\[u8; 256\] = &\[(.*?)\n\];", us, re.S)
    if mm:
        body = re.sub(r"//[^\n]*", "", mm.group(1))
        ok = True
        for tok in [t.strip() for t in body.split(",") if t.strip()]:
            if re.fullmatch(r"\d+", tok):
                table.append(int(tok))
            elif re.fullmatch(r"modified_combining_class::(CCC\d+)", tok) and tok.split("::")[1] in mod_consts:
                table.append(mod_consts[tok.split("::")[1]])
            elif re.fullmatch(r"CanonicalCombiningClass::(\w+) as u8", tok) and tok.split("::")[1].split()[0] in enum:
                table.append(enum[tok.split("::")[1].split()[0]])
            else:
                ok = False
                fails.append(("modified_combining_class_table", "entry does not resolve: " + tok[:50]))
                break
        if ok and len(table) != 256:
            fails.append(("modified_combining_class_table", "%d entries, expected 256" % len(table)))
            ok = False
        if not ok:
            table = []
    else:
        fails.append(("modified_combining_class_table", "MODIFIED_COMBINING_CLASS: &[u8; 256] not found"))
    g.defNlist("MODIFIED_COMBINING_CLASS", table)
    # special cases at the head of CharExt::modified_combining_class
    spec = []
    mm = re.search(r"fn modified_combining_class\(self\) -> u8 \{(.*?)\n    \}", us, re.S)
    if mm:
        body = mm.group(1)
        spec = [(int(a, 16), int(b)) for a, b in re.findall(r"if u == '\\u\{([0-9A-Fa-f]+)\}' \{\s*return (\d+);\s*\}", body)]
        rest = re.sub(r"if u == '\\u\{[0-9A-Fa-f]+\}' \{\s*return \d+;\s*\}", "", re.sub(r"//[^\n]*", "", body))
        rest = re.sub(r"\s+", " ", rest).strip()
        if rest != "let u = self; let k = unicode_ccc::get_canonical_combining_class(u); MODIFIED_COMBINING_CLASS[k as usize]":
            fails.append(("modified_combining_class_fn", "unexpected body shape: " + rest[:120]))
            spec = []
    else:
        fails.append(("modified_combining_class_fn", "fn modified_combining_class not found"))
    g.raw("(* `if u == c { return v }` special cases that precede the table lookup *)")
    g.raw("Definition MCC_SPECIAL : list (N * N) := [%s]." % "; ".join("(%d,%d)" % s for s in spec))
    # characters with a space fallback (CharExt::space_fallback arms that are not NOT_SPACE)
    spaces = []
    mm = re.search(r"fn space_fallback\(self\) -> hb_unicode_funcs_t::space_t \{(.*?)\n    \}", us, re.S)
    if mm:
        arms = re.findall(r"'\\u\{([0-9A-Fa-f]+)\}' => (\w+),", mm.group(1))
        spaces = [int(c, 16) for c, v in arms if v != "NOT_SPACE"]
        if not re.search(r"_ => NOT_SPACE,", mm.group(1)) or len(spaces) < 10:
            fails.append(("space_fallback", "space_fallback match has an unexpected shape"))
            spaces = []
    else:
        fails.append(("space_fallback", "fn space_fallback not found"))
    g.defNlist("SPACE_FALLBACK", spaces)
    # ---- ot_shaper.rs
    sh = read(repo, "src/hb/ot_shaper.rs")
    mm = re.findall(r"pub const MAX_COMBINING_MARKS: usize = (\d+);", sh)
    if len(mm) == 1:
        g.defN("MAX_COMBINING_MARKS", int(mm[0]))
    else:
        fails.append(("max_combining_marks", "MAX_COMBINING_MARKS not found exactly once"))
        g.defN("MAX_COMBINING_MARKS", 0)
    mm = re.search(r"pub const DEFAULT_SHAPER: hb_ot_shaper_t = hb_ot_shaper_t \{(.*?)\n\};", sh, re.S)
    dflt_ok = False
    if mm:
        f = dict(re.findall(r"(\w+): ([^,\n]+),", mm.group(1)))
        dflt_ok = (f.get("normalization_preference") == "HB_OT_SHAPE_NORMALIZATION_MODE_AUTO" and f.get("decompose") == "None"
                   and f.get("compose") == "None" and f.get("reorder_marks") == "None" and f.get("preprocess_text") == "None")
    # informational only (not a guard): a behavioural change here is caught by the API correspondence
    g.raw("(* DEFAULT_SHAPER = { normalization_preference: AUTO; decompose, compose, reorder_marks, preprocess_text: None } *)")
    g.raw("Definition DEFAULT_SHAPER_PLAIN_AUTO : bool := %s." % ("true" if dflt_ok else "false"))
    # ---- ot_shape_normalize.rs: the comparison used for round 2 and the AUTO -> COMPOSED_DIACRITICS choice
    ns = read(repo, "src/hb/ot_shape_normalize.rs")
    mm = re.search(r"fn compare_combining_class\(pa: &hb_glyph_info_t, pb: &hb_glyph_info_t\) -> bool \{(.*?)\n\}", ns, re.S)
    cmp_ok = bool(mm) and re.sub(r"\s+", " ", mm.group(1)).strip() == (
        "let a = _hb_glyph_info_get_modified_combining_class(pa); let b = _hb_glyph_info_get_modified_combining_class(pb); a > b")
    g.raw("(* the next two are informational syntactic observations, not guards *)")
    g.raw("Definition COMPARE_IS_GT : bool := %s." % ("true" if cmp_ok else "false"))
    auto = re.findall(r"mode = HB_OT_SHAPE_NORMALIZATION_MODE_(\w+);", re.sub(r"//[^\n]*", "", ns))
    auto_ok = auto == ["COMPOSED_DIACRITICS", "COMPOSED_DIACRITICS"]
    g.raw("Definition AUTO_IS_COMPOSED_DIACRITICS : bool := %s." % ("true" if auto_ok else "false"))
    return g


def ranges_of(pred):
    res = []
    cur = None
    for c in range(0x110000):
        if pred(c):
            if cur is not None and cur[1] == c - 1:
                cur[1] = c
            else:
                cur = [c, c]
                res.append(cur)
    return res


def spec_tables(fails):
    g = Gen("UnicodeSpec")
    g.header("Unicode %s data from CPython unicodedata (independent of the crate): canonical decomposition "
             "mapping, combining classes of marks, primary composites, assigned ranges" % U.unidata_version)
    g.raw('Definition SPEC_UNICODE_VERSION : string := "%s"%%string.' % U.unidata_version)
    dec = {}
    for c in range(0x110000):
        d = U.decomposition(chr(c))
        if d and not d.startswith("<"):
            dec[c] = [int(x, 16) for x in d.split()]
    if len(dec) < 500 or any(len(v) not in (1, 2) for v in dec.values()):
        fails.append(("spec_decomposition", "unicodedata canonical decompositions have an unexpected shape"))
        dec = {}
    g.raw("(* first-level canonical Decomposition_Mapping (no <tag>); second element 0 for singletons; Hangul\n"
          "   syllables are algorithmic and not listed *)")
    big_list(g, "SPEC_DECOMP", "N * (N * N)", ["(%d,(%d,%d))" % (c, v[0], v[1] if len(v) == 2 else 0) for c, v in sorted(dec.items())])
    # primary composites: canonical decompositions of length 2 that are not composition exclusions,
    # i.e. NFC of the decomposition gives the character back
    prim = []
    for c, v in sorted(dec.items()):
        if len(v) == 2 and U.normalize("NFC", chr(v[0]) + chr(v[1])) == chr(c):
            prim.append((v[0], v[1], c))
    g.raw("(* primary composites ((a, b), ab): two-element canonical decompositions that are not composition\n"
          "   exclusions (NFC(a b) = ab), sorted by (a, b) *)")
    big_list(g, "SPEC_PRIMARY", "(N * N) * N", ["((%d,%d),%d)" % p for p in sorted(prim)])
    # marks (gc = Mn, Mc, Me) with their canonical combining class; non-marks all have ccc 0 (guarded)
    marks = []
    for c in range(0x110000):
        ch = chr(c)
        cc = U.combining(ch)
        if U.category(ch)[0] == "M":
            marks.append((c, cc))
        elif cc:
            fails.append(("spec_marks", "U+%04X has ccc %d but is not a mark" % (c, cc)))
            marks = []
            break
    g.raw("(* every character of general category M* with its Canonical_Combining_Class; all other characters have ccc 0 *)")
    big_list(g, "SPEC_MARKS", "N * N", ["(%d,%d)" % m for m in marks], per_line=10)
    asg = ranges_of(lambda c: U.category(chr(c)) != "Cn")
    g.raw("(* ranges of code points assigned in this Unicode version (gc <> Cn): the stable subset *)")
    big_list(g, "SPEC_ASSIGNED", "N * N", ["(%d,%d)" % (a, b) for a, b in asg], per_line=10)
    sp = ranges_of(lambda c: U.category(chr(c)) == "Zs")
    g.raw("(* gc = Zs *)")
    g.raw("Definition SPEC_SPACES : list (N * N) := [%s]." % "; ".join("(%d,%d)" % (a, b) for a, b in sp))
    return g


def run(repo, fails):
    return [crate_tables(repo, fails), spec_tables(fails)]
