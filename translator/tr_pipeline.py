"""tr_pipeline: /repo/src/hb/ot_shape.rs -> coq/Gen/Pipeline.v  (properties C13, C17; order facts used by C02/C09)

The shaping pipeline is a fixed sequence of passes spread over nine small functions (shape_internal,
substitute_pre/post, hb_ot_substitute_default/plan, position, position_default/complex/by_plan).  Several
properties depend on the ORDER of those passes (ignorables are zeroed after everything that positions them and
hidden after positioning; morx deletion markers are removed exactly once, before GPOS or after positioning; text
is normalized before masks are set ...).  This extractor regenerates, on every run, for each of the nine
functions the list of calls in source order together with the condition under which each call runs:

    pipeline_fns : list (string * list (string * string))     (* fn name, [(callee, guard)] *)

A callee is the last path segment of a call expression (`GPOS::position_start(..)` -> "position_start",
`ctx.buffer.enter()` -> "enter"); an indirect call through `if let Some(func) = ctx.plan.shaper.X { func(..) }`
is recorded as "shaper.X".  The guard is the whitespace-free text of the enclosing `if` conditions (outermost
first, joined by " & "; an `else` branch negates with a leading "!(...)"; loops add nothing).

Shape guard: every call inside those functions must be either a known pass name (STEPS), or a known pure
accessor (IGNORE).  An unknown call, a missing function or unbalanced braces is a guard failure and
`pipeline_shape_ok := false`, so no order theorem can be proved from stale data."""
import re

from tr_util import Gen, read

FNS = ["shape_internal", "substitute_pre", "substitute_post", "hb_ot_substitute_default", "hb_ot_substitute_plan",
       "position", "position_default", "position_complex", "position_by_plan"]

STEPS = {
    "enter", "leave", "initialize_masks", "set_unicode_props", "insert_dotted_circle", "form_clusters",
    "ensure_native_direction", "shaper.preprocess_text", "substitute_pre", "position", "substitute_post",
    "propagate_flags", "hb_ot_substitute_default", "hb_ot_substitute_plan", "hb_aat_layout_remove_deleted_glyphs",
    "deal_with_variation_selectors", "hide_default_ignorables", "shaper.postprocess_glyphs", "rotate_chars",
    "_hb_ot_shape_normalize", "setup_masks", "_hb_ot_shape_fallback_mark_position_recategorize_marks",
    "map_glyphs_fast", "hb_ot_layout_substitute_start", "hb_synthesize_glyph_classes", "hb_aat_layout_substitute",
    "ot_layout_gsub_table::substitute", "clear_positions", "position_default", "position_complex", "reverse", "glyph_h_advance",
    "glyph_v_advance", "glyph_h_origin", "glyph_v_origin", "_hb_ot_shape_fallback_spaces", "position_start",
    "zero_mark_widths_by_gdef", "position_by_plan", "position_finish_advances", "zero_width_default_ignorables",
    "hb_aat_layout_zero_width_deleted_glyphs", "position_finish_offsets", "position_marks", "hb_aat_layout_position", "ot_layout_gpos_table::position",
    "hb_ot_layout_kern", "_hb_ot_shape_fallback_kern", "hb_aat_layout_track",
}
# pure accessors / syntax that looks like a call
IGNORE = {"is_horizontal", "is_backward", "is_forward", "is_vertical", "iter", "iter_mut", "zip", "as_glyph", "Some", "if", "for",
          "while", "match", "fn", "in", "let"}


def blank(src):
    """comments and string/char literals -> spaces (same length)."""
    out = list(src)
    for m in re.finditer(r"//[^\n]*|/\*.*?\*/|\"(?:\\.|[^\"\\])*\"|'(?:\\.|[^'\\])'", src, re.S):
        for i in range(m.start(), m.end()):
            if out[i] != "\n":
                out[i] = " "
    return "".join(out)


def body_of(src, name):
    ms = list(re.finditer(r"\bfn\s+%s\s*\(" % re.escape(name), src))
    if len(ms) != 1:
        raise ValueError("fn %s defined %d times" % (name, len(ms)))
    i = src.index("{", ms[0].end())
    depth = 0
    for j in range(i, len(src)):
        if src[j] == "{":
            depth += 1
        elif src[j] == "}":
            depth -= 1
            if depth == 0:
                return src[i + 1:j]
    raise ValueError("unbalanced braces in fn %s" % name)


def calls_of(body):
    """[(callee, guard)] in source order; raises ValueError on an unknown callee."""
    out = []
    stack = []          # one entry per open brace: guard text or None
    last_if = {}        # depth -> condition of the most recent `if` closed at that depth (for else)
    shaper_fn = {}      # depth -> shaper slot bound to `func` by an enclosing `if let Some(func) = ...`
    i = 0
    stmt_start = 0
    n = len(body)
    while i < n:
        c = body[i]
        if c == "{":
            header = body[stmt_start:i].strip()
            guard = None
            depth = len(stack)
            m = re.match(r"^(else\s+)?if\s+(.*)$", header, re.S)
            if m:
                cond = re.sub(r"\s+", "", m.group(2))
                ml = re.match(r"^letSome\(func\)=ctx\.plan\.shaper\.(\w+)$", cond)
                if ml:
                    shaper_fn[depth + 1] = ml.group(1)
                    cond = "shaper.%s.is_some" % ml.group(1)
                if m.group(1):
                    prev = last_if.get(depth, "?")
                    cond = "!(%s)&&%s" % (prev, cond)
                    last_if[depth] = prev + "||" + re.sub(r"\s+", "", m.group(2))
                else:
                    last_if[depth] = cond
                guard = cond
            elif re.match(r"^else$", header):
                guard = "!(%s)" % last_if.get(depth, "?")
            stack.append(guard)
            stmt_start = i + 1
            i += 1
            continue
        if c == "}":
            if not stack:
                raise ValueError("unbalanced braces")
            shaper_fn.pop(len(stack), None)
            stack.pop()
            stmt_start = i + 1
            i += 1
            continue
        if c == ";":
            stmt_start = i + 1
            i += 1
            continue
        m = re.compile(r"([A-Za-z_][A-Za-z0-9_]*)\s*\(").match(body, i)
        if m and (i == 0 or not (body[i - 1].isalnum() or body[i - 1] == "_")):
            name = m.group(1)
            mp = re.search(r"([A-Za-z_][A-Za-z0-9_]*)::$", body[:i])
            if mp and name in ("position", "substitute"):
                # the table-level entry points share their names with pipeline functions
                name = mp.group(1) + "::" + name
            if name == "func":
                slot = None
                for d in range(len(stack), 0, -1):
                    if d in shaper_fn:
                        slot = shaper_fn[d]
                        break
                if slot is None:
                    raise ValueError("indirect call `func(..)` outside `if let Some(func) = ctx.plan.shaper.X`")
                name = "shaper." + slot
            if name in STEPS:
                out.append((name, " & ".join(g for g in stack if g)))
            elif name not in IGNORE:
                raise ValueError("unknown call `%s(` in a pipeline function" % name)
            i = m.end()
            continue
        i += 1
    return out


def coq_str(s):
    return '"' + s.replace('"', '""') + '"'


def run(repo, fails):
    g = Gen("Pipeline")
    g.header("call order of the shaping pipeline functions of src/hb/ot_shape.rs")
    g.raw("Local Open Scope string_scope.")
    src = blank(read(repo, "src/hb/ot_shape.rs"))
    ok = True
    fns = []
    for f in FNS:
        try:
            fns.append((f, calls_of(body_of(src, f))))
        except (ValueError, IndexError) as ex:
            ok = False
            fails.append(("pipeline_" + f, str(ex)))
            fns.append((f, []))
    g.raw("Definition pipeline_shape_ok : bool := %s." % ("true" if ok else "false"))
    g.raw("Definition pipeline_fns : list (string * list (string * string)) :=\n  [%s]." % ";\n   ".join(
        "(%s,\n    [%s])" % (coq_str(f), ";\n     ".join("(%s, %s)" % (coq_str(c), coq_str(gd)) for c, gd in cs)) for f, cs in fns))
    return [g]
