"""tr_sites: /repo/src/hb/**/*.rs -> coq/Gen/CopyLoops.v  (property C08)

The list of EVERY element-wise copy loop of the shaping code, regenerated from the working tree on every
run.  `C08_all_copy_loops_ok` (Props/C08.v) is `forallb loop_ok copy_loops = true` computed over this list.

What is scanned: every `X[I] = RHS;` statement (and `X.set_out_info(I, RHS)`, the method form buffer.rs
uses) whose innermost enclosing loop is a `for` / `while` / `loop`, in every file under src/hb except the
guarded hooks (src/hb/verif/) .  Comments, strings and char literals are blanked first; braces, brackets and
parentheses are matched, so line breaks and formatting do not matter.

Classification of one indexed assignment inside a loop (first match wins):

  copy     RHS is a pure element read `Y[J]` (modulo parentheses, `*`, `&`, `.clone()`), the innermost
           loop is `for VAR in A..B` / `(A..B).rev()`, it is the only statement of the body, and both I and J
           are linear expressions in which VAR has coefficient 1.  Emitted into `copy_loops` with
             direction  Fwd | Bwd                         (`.rev()` present or not)
             same_array X and Y are in the same storage class (`info`/`out_info()`/`out_info_mut()` may
                        alias each other, so may `pos`/`out_pos`); different classes cannot overlap
             rel        sign of (I - J) = destination offset minus source offset:
                          RLt / RGt / REq    the difference is an integer constant  (syntactically evident)
                          RLe / RGe          the difference is a sum of usize atoms with coefficients of one
                                             sign (an unsigned quantity is >= 0), or follows from an enclosing
                                             `if P > Q` / `if P < Q` guard, or from a HINT below
                          RUnknown           anything else -> loop_ok = false -> the obligation FAILS
  map      RHS is computed (not a pure element read) and mentions X's storage class not at all or only at
           the identical index I: an in-place map, no element moves.  Listed in `map_loops` (informational).
  scan     RHS is computed and reads X at another index (a recurrence such as `p[j] = p[j-1] + 1`): not a
           copy; accepted only if listed in REVIEWED below (exact normalised text), else unclassified.
  compact  pure element read but the destination index is not the loop variable (`x[j] = x[i]` with a
           separately maintained j): accepted only if listed in REVIEWED, else unclassified.
  anything else (iterator loops writing an aliased array, while-loops that shift elements, non-linear
  indices, multi-statement bodies mixing a copy with other writes ...) is UNCLASSIFIED: it is emitted into
  `unclassified_loops`, a translator guard failure is recorded, and `C08_all_copy_loops_ok` fails
  (`unclassified_loops = []` is part of the obligation).  Unknown is never silently ok.

Separately listed as safe by construction (`safe_sites`): `copy_within`, `rotate_left/right`,
`copy_from_slice`, `clone_from_slice`, `swap`, `mem::swap`, and `for .. in X.iter_mut()` writers (memmove
semantics, or disjointness enforced by the borrow checker).  A refactor that replaces a hand-written
loop by one of these moves the site from `copy_loops` to `safe_sites`: no alarm.
"""
import os
import re

from tr_util import Gen, read

# ---------------------------------------------------------------- reviewed non-copy sites
# (file, normalised statement) -> why it is not an element move that could lose a glyph.
REVIEWED = {
    ("ot_layout_gsubgpos.rs", "match_positions[j]=match_positions[j-1]+1"):
        "scan: intended recurrence over match positions (usize indices, not glyphs); forward is what is meant",
    ("ot_map.rs", "feature_infos[j]=feature_infos[i]"):
        "compact: dedup of the sorted feature list, j <= i throughout (j starts at 0, i at 1, j += 1 at most once per step)",
    ("ot_map.rs", "lookups[j]=lookups[i]"):
        "compact: dedup of sorted lookups, j < i throughout (j = start, i from j+1)",
    ("aat_map.rs", "self.current_features[j]=self.current_features[i]"):
        "compact: dedup of sorted AAT feature settings, j < i throughout (j = 0, i from 1, j += 1 at most once per step)",
    ("buffer.rs", "self.info[j]=self.info[i]"):
        "compact: delete_glyphs_inplace write head j <= read head i (guarded by `if j != i`); modelled literally as "
        "Buffer.delete_glyphs_inplace and covered by C08_delete_inplace_content",
    ("buffer.rs", "self.pos[j]=self.pos[i]"):
        "compact: delete_glyphs_inplace, same indices as the info move next to it",
    ("ot_shaper_arabic.rs", "buffer.info[j]=buffer.info[i-1]"):
        "expand: apply_stch CUT pass copies towards the END of the enlarged buffer, walking down; write head j-1 >= read "
        "head i-1 because j starts at len + extra_glyphs_needed (measured in the first pass). Needs the GSUB `stch` feature: "
        "unreachable on cmap-only fonts",
    ("ot_shaper_arabic.rs", "buffer.pos[j]=buffer.pos[i-1]"): "expand: apply_stch, same indices as the info move next to it",
    ("ot_shaper_arabic.rs", "buffer.info[j]=buffer.info[k-1]"):
        "expand: apply_stch repeats a tile at the write head j-1 >= k-1 (same argument); unreachable on cmap-only fonts",
    ("ot_shaper_arabic.rs", "buffer.pos[j]=buffer.pos[k-1]"): "expand: apply_stch, same indices as the info move next to it",
}

# sign hints for index differences that are not constants: (file, normalised difference) ->
# (rel, evidence regexes that must ALL match the file text (comments blanked), regexes that must NOT match the
#  enclosing fn, why)
ALIAS_INV = r"!self\.have_separate_output\s*&&\s*self\.out_len\s*\+\s*num_out\s*>\s*self\.idx\s*\+\s*num_in"
HINTS = {
    ("ot_shaper_arabic.rs", "-i+j"): (
        "RGe", [r"let\s+mut\s+j\s*=\s*i\s*;", r"j\s*\+=\s*1\s*;", r"if\s+i\s*==\s*j\s*\{\s*continue\s*;"], [r"\bj\s*-="],
        "j starts at i and is only incremented before the loop (i == j is skipped): j - i > 0"),
    ("buffer.rs", "idx-out_len"): (
        "RGe", [ALIAS_INV], [],
        "buffer invariant: while the out-buffer aliases info, out_len <= idx (make_room_for switches to separate "
        "storage before out_len could pass idx); with separate storage the arrays are disjoint"),
    ("buffer.rs", "-idx+out_len"): (
        "RLe", [ALIAS_INV], [],
        "buffer invariant out_len <= idx while the out-buffer aliases info (see idx-out_len); separate storage is disjoint"),
}

STORAGE = {"info": "info", "out_info": "info", "out_info_mut": "info",
           "pos": "pos", "out_pos": "pos", "out_pos_mut": "pos"}

SAFE_CALLS = ["copy_within", "rotate_left", "rotate_right", "copy_from_slice", "clone_from_slice", "swap"]


# ---------------------------------------------------------------- lexing helpers

def blank(src):
    """Replace comments, string and char literals by spaces (newlines kept)."""
    out = list(src)
    n = len(src)
    i = 0

    def wipe(a, b):
        for k in range(a, b):
            if out[k] != "\n":
                out[k] = " "
    while i < n:
        c = src[i]
        if src.startswith("//", i):
            j = src.find("\n", i)
            j = n if j < 0 else j
            wipe(i, j)
            i = j
        elif src.startswith("/*", i):
            depth = 1
            j = i + 2
            while j < n and depth:
                if src.startswith("/*", j):
                    depth += 1
                    j += 2
                elif src.startswith("*/", j):
                    depth -= 1
                    j += 2
                else:
                    j += 1
            wipe(i, j)
            i = j
        elif c == '"':
            j = i + 1
            while j < n and src[j] != '"':
                j += 2 if src[j] == "\\" else 1
            wipe(i + 1, min(j, n))
            i = j + 1
        elif c == "r" and re.match(r'r#*"', src[i:i + 8]) and (i == 0 or not (src[i - 1].isalnum() or src[i - 1] == "_")):
            m = re.match(r'r(#*)"', src[i:])
            close = '"' + m.group(1)
            j = src.find(close, i + len(m.group(0)))
            j = n if j < 0 else j + len(close)
            wipe(i, j)
            i = j
        elif c == "'":
            m = re.match(r"'(?:\\(?:u\{[0-9a-fA-F_]+\}|x[0-9a-fA-F]{2}|.)|[^\\'\n])'", src[i:])
            if m:
                wipe(i + 1, i + len(m.group(0)) - 1)
                i += len(m.group(0))
            else:
                i += 1
        else:
            i += 1
    return "".join(out)


OPEN = {"(": ")", "[": "]", "{": "}"}
CLOSE = {")": "(", "]": "[", "}": "{"}


def match_fwd(s, i):
    """s[i] is an opening bracket: index of its partner, or -1."""
    depth = 0
    for k in range(i, len(s)):
        c = s[k]
        if c in OPEN:
            depth += 1
        elif c in CLOSE:
            depth -= 1
            if depth == 0:
                return k
    return -1


def match_bwd(s, i):
    depth = 0
    for k in range(i, -1, -1):
        c = s[k]
        if c in CLOSE:
            depth += 1
        elif c in OPEN:
            depth -= 1
            if depth == 0:
                return k
    return -1


def line_of(s, i):
    return s.count("\n", 0, i) + 1


def norm(e):
    return re.sub(r"\s+", "", e)


# ---------------------------------------------------------------- loops

class Loop:
    def __init__(self, kind, hdr_start, body_open, body_close, header):
        self.kind = kind            # for | while | loop
        self.start = hdr_start
        self.open = body_open
        self.close = body_close
        self.header = header
        self.var = None
        self.dir = None             # Fwd | Bwd | None
        self.range = None
        if kind == "for":
            m = re.match(r"\s*([A-Za-z_][A-Za-z0-9_]*)\s+in\s+(.*)$", header, re.S)
            if m:
                rng = norm(m.group(2))
                d = "Fwd"
                mm = re.fullmatch(r"\((.*)\)\.rev\(\)", rng)
                if mm:
                    rng, d = mm.group(1), "Bwd"
                if rng.startswith("(") and match_fwd(rng, 0) == len(rng) - 1:
                    rng = rng[1:-1]
                if re.fullmatch(r"[^.]*(\.[A-Za-z_][^.]*)*\.\.=?[^.]*(\.[A-Za-z_(][^.]*)*", rng) and ".rev()" not in rng \
                        and "iter" not in rng and "step_by" not in rng:
                    self.var, self.dir, self.range = m.group(1), d, rng


def find_loops(s):
    loops = []
    for m in re.finditer(r"\b(for|while|loop)\b", s):
        kw = m.group(1)
        i = m.end()
        # header: up to the first `{` at bracket depth 0
        depth = 0
        k = i
        while k < len(s):
            c = s[k]
            if c in "([":
                depth += 1
            elif c in ")]":
                depth -= 1
            elif c == "{" and depth == 0:
                break
            elif c == ";" and depth == 0:
                k = -1
                break
            k += 1
        if k < 0 or k >= len(s):
            continue
        header = s[i:k]
        if kw == "for" and not re.search(r"\bin\b", header):
            continue   # `impl X for Y {`, `for<'a>`
        if kw == "loop" and header.strip():
            continue
        close = match_fwd(s, k)
        if close < 0:
            continue
        loops.append(Loop(kw, m.start(), k, close, header))
    return loops


def innermost(loops, pos):
    best = None
    for lp in loops:
        if lp.open < pos < lp.close and (best is None or lp.open > best.open):
            best = lp
    return best


def enclosing_fn(s, pos):
    """Text of the innermost `fn` item containing pos ('' when none)."""
    best = ""
    for m in re.finditer(r"\bfn\s+[A-Za-z_][A-Za-z0-9_]*", s):
        if m.start() > pos:
            break
        k = s.find("{", m.end())
        semi = s.find(";", m.end())
        if k < 0 or (0 <= semi < k):
            continue
        c = match_fwd(s, k)
        if k < pos < c:
            best = s[m.start():c + 1]
    return best


# ---------------------------------------------------------------- assignments

def lhs_of(s, eq):
    """eq = index of a plain `=`.  Returns (start, base, index) when the LHS is `base[index]`."""
    k = eq - 1
    while k >= 0 and s[k] in " \t\n":
        k -= 1
    if k < 0 or s[k] != "]":
        return None
    ob = match_bwd(s, k)
    if ob < 0:
        return None
    index = s[ob + 1:k]
    j = ob - 1
    # postfix chain backwards
    while j >= 0:
        c = s[j]
        if c.isalnum() or c in "_.":
            j -= 1
        elif c in ")]":
            o = match_bwd(s, j)
            if o < 0:
                return None
            j = o - 1
        elif c == ":" and j > 0 and s[j - 1] == ":":
            j -= 2
        else:
            break
    base = s[j + 1:ob].strip()
    if not base or not re.match(r"[A-Za-z_]", base):
        return None
    # must start a statement
    p = j
    while p >= 0 and s[p] in " \t\n":
        p -= 1
    if p >= 0 and s[p] not in ";{}":
        return None
    return (j + 1, base, index)


def rhs_of(s, eq):
    depth = 0
    for k in range(eq + 1, len(s)):
        c = s[k]
        if c in OPEN:
            depth += 1
        elif c in CLOSE:
            depth -= 1
            if depth < 0:
                return s[eq + 1:k], k
        elif c == ";" and depth == 0:
            return s[eq + 1:k], k
    return s[eq + 1:], len(s)


def assignments(s):
    res = []
    for m in re.finditer(r"(?<![=!<>+\-*/%&|^])=(?![=>])", s):
        l = lhs_of(s, m.start())
        if not l:
            continue
        rhs, end = rhs_of(s, m.start())
        res.append({"pos": l[0], "end": end, "base": l[1], "index": l[2], "rhs": rhs.strip(), "form": "index"})
    for m in re.finditer(r"([A-Za-z_][A-Za-z0-9_]*(?:\.[A-Za-z_][A-Za-z0-9_]*)*)\.(set_out_info)\s*\(", s):
        o = m.end() - 1
        c = match_fwd(s, o)
        if c < 0:
            continue
        args = split_top(s[o + 1:c], ",")
        if len(args) != 2:
            continue
        # only statement-position calls
        p = m.start() - 1
        while p >= 0 and s[p] in " \t\n":
            p -= 1
        if p >= 0 and s[p] not in ";{}":
            continue
        res.append({"pos": m.start(), "end": c + 1, "base": m.group(1) + ".out_info", "index": args[0], "rhs": args[1].strip(),
                    "form": "set_out_info"})
    res.sort(key=lambda a: a["pos"])
    return res


def split_top(e, sep):
    out = []
    depth = 0
    cur = ""
    for c in e:
        if c in OPEN:
            depth += 1
        elif c in CLOSE:
            depth -= 1
        if c == sep and depth == 0:
            out.append(cur)
            cur = ""
        else:
            cur += c
    out.append(cur)
    return out


def storage(base):
    """Storage class of an array expression: last path component without call parentheses."""
    b = norm(base)
    b = re.sub(r"\(\)", "", b)
    last = b.split(".")[-1]
    return STORAGE.get(last, last)


def pure_read(rhs):
    """`Y[J]` modulo parens, *, &, .clone(): returns (base, index) or None."""
    e = rhs.strip()
    while True:
        if e.startswith("(") and match_fwd(e, 0) == len(e) - 1:
            e = e[1:-1].strip()
        elif e.startswith("*") or e.startswith("&"):
            e = e[1:].strip()
        elif e.endswith(".clone()"):
            e = e[:-8].strip()
        else:
            break
    if not e.endswith("]"):
        return None
    ob = match_bwd(e, len(e) - 1)
    if ob <= 0:
        return None
    base = e[:ob].strip()
    if not re.fullmatch(r"[A-Za-z_][A-Za-z0-9_]*(?:\s*(?:\.\s*[A-Za-z_][A-Za-z0-9_]*(?:\s*\(\s*\))?|::\s*[A-Za-z_][A-Za-z0-9_]*))*", base):
        return None
    return base, e[ob + 1:-1]


# ---------------------------------------------------------------- linear index expressions

TOKEN = re.compile(r"\s*(0x[0-9A-Fa-f_]+|\d[\d_]*(?:usize|u32|u16|u8|i32|isize)?|[A-Za-z_][A-Za-z0-9_]*(?:\s*\.\s*[A-Za-z_][A-Za-z0-9_]*)*|[-+()])")


def linear(e):
    """Parse e as a linear combination of atoms: dict atom -> coef ('' is the constant). None if not linear."""
    toks = []
    pos = 0
    e = e.strip()
    while pos < len(e):
        m = TOKEN.match(e, pos)
        if not m:
            return None
        toks.append(norm(m.group(1)))
        pos = m.end()
    # recursive descent: expr := term (('+'|'-') term)* ; term := ['-'] (atom | '(' expr ')')
    idx = [0]

    def expr():
        acc = term()
        if acc is None:
            return None
        while idx[0] < len(toks) and toks[idx[0]] in "+-":
            op = toks[idx[0]]
            idx[0] += 1
            t = term()
            if t is None:
                return None
            for k, v in t.items():
                acc[k] = acc.get(k, 0) + (v if op == "+" else -v)
        return acc

    def term():
        if idx[0] >= len(toks):
            return None
        t = toks[idx[0]]
        idx[0] += 1
        if t == "-":
            r = term()
            return None if r is None else {k: -v for k, v in r.items()}
        if t == "(":
            r = expr()
            if r is None or idx[0] >= len(toks) or toks[idx[0]] != ")":
                return None
            idx[0] += 1
            return r
        if t in "+)":
            return None
        if t[0].isdigit():
            t = re.sub(r"(usize|u32|u16|u8|i32|isize)$", "", t).replace("_", "")
            return {"": int(t, 16) if t.lower().startswith("0x") else int(t)}
        # strip receivers: self.idx / buffer.idx -> idx  (one buffer per function)
        t = re.sub(r"^(self|buffer)\.", "", t)
        return {t: 1}
    r = expr()
    if r is None or idx[0] != len(toks):
        return None
    return {k: v for k, v in r.items() if v != 0}


def show_lin(d):
    if not d:
        return "0"
    parts = []
    for k in sorted(d, key=lambda x: (x == "", x)):
        v = d[k]
        name = k if k else ""
        if k == "":
            parts.append(("+" if v > 0 else "-") + str(abs(v)))
        else:
            parts.append(("+" if v > 0 else "-") + ("" if abs(v) == 1 else str(abs(v)) + "*") + name)
    s = "".join(parts)
    return s[1:] if s.startswith("+") else s


def guards_around(s, pos):
    """Conditions of the `if`/`else if`/`while` blocks that enclose pos: list of (lhs, op, rhs) linear triples."""
    res = []
    for m in re.finditer(r"\b(if|while)\b", s):
        if m.start() > pos:
            break
        depth = 0
        k = m.end()
        while k < len(s):
            c = s[k]
            if c in "([":
                depth += 1
            elif c in ")]":
                depth -= 1
            elif c == "{" and depth == 0:
                break
            elif c == ";" and depth == 0:
                k = -1
                break
            k += 1
        if k < 0 or k >= len(s):
            continue
        c = match_fwd(s, k)
        if not (k < pos < c):
            continue
        cond = s[m.end():k]
        for part in re.split(r"&&", cond):
            part = part.strip()
            while part.startswith("(") and match_fwd(part, 0) == len(part) - 1:
                part = part[1:-1].strip()
            mm = re.fullmatch(r"(.+?)\s*(<=|>=|<|>)\s*(.+)", part, re.S)
            if mm:
                a, b = linear(mm.group(1)), linear(mm.group(3))
                if a is not None and b is not None:
                    res.append((a, mm.group(2), b))
    return res


def sub(a, b):
    r = dict(a)
    for k, v in b.items():
        r[k] = r.get(k, 0) - v
    return {k: v for k, v in r.items() if v != 0}


def scale_of(d, e):
    """d == q*e for a rational q > 0 -> +1, q < 0 -> -1, else 0."""
    if not d or not e or set(d) != set(e):
        return 0
    k0 = next(iter(d))
    num, den = d[k0], e[k0]
    for k in d:
        if d[k] * den != e[k] * num:
            return 0
    return 1 if num * den > 0 else -1


def relation(diff, s, pos, fname, fn_text):
    """rel of destination offset minus source offset, and where the sign comes from."""
    if not diff:
        return "REq", "identical index"
    if set(diff) == {""}:
        return ("RGt", "constant %+d" % diff[""]) if diff[""] > 0 else ("RLt", "constant %+d" % diff[""])
    # enclosing guards
    for a, op, b in guards_around(s, pos):
        g = sub(a, b)     # a - b  (op) 0
        sc = scale_of(diff, g)
        if sc:
            pos_sign = {">": 1, ">=": 1, "<": -1, "<=": -1}[op] * sc
            strict = op in "<>"
            if pos_sign > 0:
                return ("RGt" if strict else "RGe"), "guard `%s %s %s`" % (show_lin(a), op, show_lin(b))
            return ("RLt" if strict else "RLe"), "guard `%s %s %s`" % (show_lin(a), op, show_lin(b))
    key = (fname, show_lin(diff))
    if key in HINTS:
        rel, need, forbid, why = HINTS[key]
        if all(re.search(r, s, re.S) for r in need) and not any(re.search(r, fn_text, re.S) for r in forbid):
            return rel, "hint: " + why
        return "RUnknown", "hint for `%s` no longer supported by the source (evidence pattern missing)" % key[1]
    vals = [v for k, v in diff.items()]
    if all(v > 0 for v in vals):
        return "RGe", "unsigned quantity `%s` >= 0" % show_lin(diff)
    if all(v < 0 for v in vals):
        return "RLe", "unsigned quantity `%s` <= 0" % show_lin(diff)
    return "RUnknown", "sign of `%s` not evident" % show_lin(diff)


# ---------------------------------------------------------------- per file

def body_statements(s, lp):
    """Number of top-level statements of the loop body (`;`-terminated or block items)."""
    body = s[lp.open + 1:lp.close]
    parts = [p for p in split_top(body, ";") if p.strip()]
    return len(parts)


def scan_file(rel, src, out):
    s = blank(src)
    fname = os.path.basename(rel)
    loops = find_loops(s)
    for a in assignments(s):
        lp = innermost(loops, a["pos"])
        if lp is None:
            continue
        line = line_of(s, a["pos"])
        text = norm(a["base"] + "[" + a["index"] + "]=" + a["rhs"]) if a["form"] == "index" else \
            norm(a["base"].rsplit(".", 1)[0] + ".set_out_info(" + a["index"] + "," + a["rhs"] + ")")
        site = {"file": rel, "line": line, "loop_line": line_of(s, lp.start), "text": text,
                "header": lp.kind + " " + norm(lp.header)}
        sx = storage(a["base"])
        pr = pure_read(a["rhs"])
        rkey = (fname, text)
        if pr is None:
            # computed RHS: where does it read X's storage?
            reads = []
            for m in re.finditer(r"([A-Za-z_][A-Za-z0-9_]*(?:\s*\.\s*[A-Za-z_][A-Za-z0-9_]*(?:\s*\(\s*\))?)*)\s*\[", a["rhs"]):
                ob = m.end() - 1
                cb = match_fwd(a["rhs"], ob)
                if cb > 0 and storage(m.group(1)) == sx:
                    reads.append(norm(a["rhs"][ob + 1:cb]))
            if all(r == norm(a["index"]) for r in reads):
                site["why"] = "computed RHS; reads of `%s` only at the written index" % sx if reads else "computed RHS; does not read `%s`" % sx
                out["map"].append(site)
            elif rkey in REVIEWED:
                site["why"] = REVIEWED[rkey]
                out["reviewed"].append(site)
            else:
                site["why"] = "computed RHS reads `%s` at another index (scan/recurrence) and is not in the reviewed list" % sx
                out["unclassified"].append(site)
            continue
        sy = storage(pr[0])
        same = sx == sy
        if lp.kind != "for" or lp.var is None:
            if not same and lp.kind == "for":
                site["why"] = "iterator loop copying between different storage classes (%s <- %s)" % (sx, sy)
                out["map"].append(site)
            elif rkey in REVIEWED:
                site["why"] = REVIEWED[rkey]
                out["reviewed"].append(site)
            elif not same:
                site["why"] = "%s-loop copying between different storage classes (%s <- %s)" % (lp.kind, sx, sy)
                out["map"].append(site)
            else:
                site["why"] = "element read of the same storage inside a `%s` whose order is not a plain range" % lp.kind
                out["unclassified"].append(site)
            continue
        li, lj = linear(a["index"]), linear(pr[1])
        if li is None or lj is None or li.get(lp.var, 0) != 1 or lj.get(lp.var, 0) != 1:
            if rkey in REVIEWED:
                site["why"] = REVIEWED[rkey]
                out["reviewed"].append(site)
            elif not same and (li is not None and li.get(lp.var, 0) == 1):
                site["why"] = "gather between different storage classes (%s <- %s), destination index is the loop variable" % (sx, sy)
                out["map"].append(site)
            else:
                site["why"] = "element move whose indices are not both `%s + offset`" % lp.var
                out["unclassified"].append(site)
            continue
        if body_statements(s, lp) != 1:
            if rkey in REVIEWED:
                site["why"] = REVIEWED[rkey]
                out["reviewed"].append(site)
            else:
                site["why"] = "copy statement inside a multi-statement loop body"
                out["unclassified"].append(site)
            continue
        diff = sub(li, lj)
        if same:
            relv, why = relation(diff, s, a["pos"], fname, enclosing_fn(s, a["pos"]))
        else:
            relv, why = "RDisjoint", "different storage classes (%s <- %s) cannot overlap" % (sx, sy)
        site.update({"dir": lp.dir, "rel": relv, "same": same, "why": why, "diff": show_lin(diff), "range": lp.range, "var": lp.var})
        out["copy"].append(site)
    # safe-by-construction sites
    for m in re.finditer(r"\.\s*(%s)\s*\(" % "|".join(SAFE_CALLS), s):
        out["safe"].append({"file": rel, "line": line_of(s, m.start()), "what": m.group(1)})
    for m in re.finditer(r"\bmem::swap\s*\(", s):
        out["safe"].append({"file": rel, "line": line_of(s, m.start()), "what": "mem::swap"})
    for lp in loops:
        if lp.kind == "for" and "iter_mut()" in norm(lp.header):
            body = s[lp.open:lp.close]
            if re.search(r"\*\s*[A-Za-z_][A-Za-z0-9_]*\s*=[^=]", body):
                out["safe"].append({"file": rel, "line": line_of(s, lp.start), "what": "iter_mut writer (borrow-checked disjoint)"})


def scan_repo(repo):
    out = {"copy": [], "map": [], "reviewed": [], "unclassified": [], "safe": [], "files": 0}
    root = os.path.join(repo, "src", "hb")
    for d, dirs, files in sorted(os.walk(root)):
        dirs.sort()
        if os.path.basename(d) == "verif":
            dirs[:] = []
            continue
        for f in sorted(files):
            if f.endswith(".rs"):
                rel = os.path.relpath(os.path.join(d, f), repo)
                src = read(repo, rel)
                out["files"] += 1
                scan_file(rel, src, out)
    return out


def coq_str(s):
    return '"' + s.replace('"', "'") + '"'


def run(repo, fails):
    g = Gen("CopyLoops")
    g.lines.append("(* Gen/CopyLoops.v — GENERATED by translator/tr_sites.py: every element-wise copy loop of /repo/src/hb. Do not edit. *)")
    g.lines.append("From Coq Require Import List NArith String.")
    g.lines.append("Import ListNotations.")
    g.lines.append("Local Open Scope string_scope.")
    g.lines.append("")
    g.raw("Inductive cl_dir := Fwd | Bwd.")
    g.raw("(* sign of (destination offset - source offset); RDisjoint: different arrays; RUnknown: not evident *)")
    g.raw("Inductive cl_rel := RLt | RLe | REq | RGe | RGt | RDisjoint | RUnknown.")
    g.raw("Record cl_site := mkSite { cl_file : string; cl_line : N; cl_dir_ : cl_dir; cl_rel_ : cl_rel; cl_same_array : bool; cl_text : string; cl_why : string }.")
    g.raw("")
    res = scan_repo(repo)
    if res["files"] < 20:
        fails.append(("copy_loops:files", "only %d source files under src/hb were scanned" % res["files"]))
    items = []
    for c in res["copy"]:
        items.append("  mkSite %s %d%%N %s %s %s %s %s" % (
            coq_str(c["file"]), c["loop_line"], c["dir"], c["rel"], "true" if c["same"] else "false",
            coq_str("for %s in %s%s: %s  (dst-src = %s)" % (c["var"], c["range"], " rev" if c["dir"] == "Bwd" else "", c["text"], c["diff"])),
            coq_str(c["why"])))
    g.raw("Definition copy_loops : list cl_site := [\n%s]." % ";\n".join(items))
    g.raw("")

    def plain(name, rows, fmt):
        g.raw("Definition %s : list (string * N * string) := [\n%s]." % (name, ";\n".join(
            "  (%s, %d%%N, %s)" % (coq_str(r["file"]), r["line"], coq_str(fmt(r))) for r in rows)))
        g.raw("")
    plain("unclassified_loops", res["unclassified"], lambda r: r["text"] + " -- " + r["why"])
    plain("reviewed_loops", res["reviewed"], lambda r: r["text"] + " -- " + r["why"])
    plain("map_loops", res["map"], lambda r: r["text"] + " -- " + r["why"])
    plain("safe_sites", res["safe"], lambda r: r["what"])
    for u in res["unclassified"]:
        fails.append(("copy_loops:unclassified", "%s:%d `%s` (%s): %s" % (u["file"], u["line"], u["text"], u["header"], u["why"])))
    for c in res["copy"]:
        if c["rel"] == "RUnknown":
            fails.append(("copy_loops:unknown-sign", "%s:%d `%s`: %s" % (c["file"], c["line"], c["text"], c["why"])))
    run.last = res
    return [g]


run.last = None


def verdict(c):
    """Python mirror of Model/CopyLoop.loop_ok (for printing only; the obligation is the Coq one)."""
    d, r = c["dir"], c["rel"]
    return r in ("REq", "RDisjoint") or (d == "Fwd" and r in ("RLt", "RLe")) or (d == "Bwd" and r in ("RGt", "RGe"))


if __name__ == "__main__":
    import sys
    fails = []
    gens = run(sys.argv[1] if len(sys.argv) > 1 else "/repo", fails)
    r = run.last
    print("copy loops: %d" % len(r["copy"]))
    for c in r["copy"]:
        print("  %-40s:%-5d %s %-9s same=%-5s %-5s %s   [%s]" % (c["file"], c["loop_line"], c["dir"], c["rel"], c["same"],
              "ok" if verdict(c) else "FAIL", c["text"], c["why"]))
    for k in ("unclassified", "reviewed", "map"):
        print("%s: %d" % (k, len(r[k])))
        for c in r[k]:
            print("  %-40s:%-5d %s   [%s]" % (c["file"], c["line"], c["text"], c["why"]))
    print("safe sites: %d" % len(r["safe"]))
    for c in r["safe"]:
        print("  %-40s:%-5d %s" % (c["file"], c["line"], c["what"]))
    for f in fails:
        print("GUARD FAILED:", f)
    if len(sys.argv) > 2:
        for g in gens:
            g.write(sys.argv[2])
