"""tr_sorts: every call of a slice sorting routine in /repo/src (outside the guarded hooks) -> coq/Gen/Sorts.v (property C02).

The syllabic shapers sort the glyphs of a syllable by position class with the standard library's STABLE sort and rely on
tied glyphs keeping their logical order (their clusters are not merged at that point); the feature-map code sorts records
whose ties are merged afterwards.  This extractor lists the call sites and counts the unstable ones
(`sort_unstable`, `sort_unstable_by`, `sort_unstable_by_key`, `select_nth_unstable*`): `C02_sorts_are_stable` is
`unstable_sort_sites = 0` over the regenerated count.  The buffer's own `sort` (an insertion sort written out in
buffer.rs) is modelled and proved stable in Proofs/BufferSortP.v."""
import os
import re

from tr_util import Gen

CALL = re.compile(r"\.\s*(sort|sort_by|sort_by_key|sort_by_cached_key|sort_unstable|sort_unstable_by|sort_unstable_by_key|"
                  r"select_nth_unstable|select_nth_unstable_by|select_nth_unstable_by_key)\s*\(")


def run(repo, fails):
    g = Gen("Sorts")
    g.header("calls of slice sorting routines in /repo/src")
    g.raw("Local Open Scope string_scope.")
    sites = []
    nfiles = 0
    for root, _, fs in os.walk(os.path.join(repo, "src")):
        if os.sep + "verif" in root:
            continue
        for f in sorted(fs):
            if not f.endswith(".rs"):
                continue
            nfiles += 1
            path = os.path.join(root, f)
            src = open(path, encoding="utf-8").read()
            src = re.sub(r"/\*.*?\*/", lambda m: re.sub(r"[^\n]", " ", m.group(0)), src, flags=re.S)
            for i, line in enumerate(src.split("\n")):
                code = line.split("//")[0]
                for m in CALL.finditer(code):
                    sites.append((os.path.relpath(path, repo).replace(os.sep, "/"), i + 1, m.group(1)))
    if nfiles < 40:
        fails.append(("sorts_files", "only %d source files found" % nfiles))
    sites.sort()
    unstable = [s for s in sites if "unstable" in s[2]]
    g.raw("Definition sort_sites : list (string * string) :=\n  [%s]." % ";\n   ".join('("%s:%d", "%s")' % s for s in sites))
    g.defN("sort_site_count", len(sites))
    g.defN("unstable_sort_sites", len(unstable))
    return [g]
