"""Translator: /repo/src/**/*.rs -> coq/Gen/*.v (constants, tables, site lists).
Each extractor has a shape guard: the item must be found exactly once and parse; a guard failure is
recorded (the tie is broken), the previous value is NOT silently kept: the generated definition becomes
an `option`-free sentinel that makes dependent proofs fail (value 0 / empty list) and the failure is
returned to the driver."""
import os
import re

from tr_util import Gen, read


def consts(repo, fails):
    g = Gen("Consts")
    g.header("constants extracted from /repo/src (regenerated on every run)")
    # ---- set_digest.rs
    src = read(repo, "src/hb/set_digest.rs")
    m = re.findall(r"type\s+mask_t\s*=\s*u(\d+)\s*;", src)
    if len(m) == 1:
        g.defN("digest_mask_bits", int(m[0]))
    else:
        fails.append(("digest_mask_bits", "type mask_t = uN; not found exactly once"))
        g.defN("digest_mask_bits", 0)
    m = re.search(r"pub type hb_set_digest_t\s*=\s*(.*?);", src, re.S)
    shifts = None
    if m:
        body = re.sub(r"\s+", "", m.group(1))
        mm = re.fullmatch(
            r"hb_set_digest_combiner_t<hb_set_digest_bits_pattern_t<(\d+)>,hb_set_digest_combiner_t<"
            r"hb_set_digest_bits_pattern_t<(\d+)>,hb_set_digest_bits_pattern_t<(\d+)>>,?>", body)
        if mm:
            shifts = [int(x) for x in mm.groups()]
    if shifts is None:
        fails.append(("digest_shifts", "hb_set_digest_t is not combiner<pattern<a>, combiner<pattern<b>, pattern<c>>>"))
        shifts = []
    g.defNlist("digest_shifts", shifts)
    return g


# guard name -> names of the Gen files of the extractor that raised it ("*" = unknown: an extractor crashed)
OWNERS = {}


def run(repo, gendir):
    fails = []
    OWNERS.clear()
    gens = [consts(repo, fails)]
    for f in fails:
        OWNERS[f[0]] = {"Consts"}
    # every translator/tr_<name>.py module (except tr_util) contributes run(repo, fails) -> [Gen]
    import glob
    import importlib
    here = os.path.dirname(os.path.abspath(__file__))
    for path in sorted(glob.glob(os.path.join(here, "tr_*.py"))):
        name = os.path.basename(path)[:-3]
        if name == "tr_util":
            continue
        mod = importlib.import_module(name)
        before = len(fails)
        try:
            gs = mod.run(repo, fails)
            gens += gs
            for f in fails[before:]:
                OWNERS[f[0]] = set(g.name for g in gs)
        except Exception as ex:  # a crashing extractor is a broken tie, not a crash of the check
            fails.append((name, "extractor crashed: %r" % (ex,)))
            for f in fails[before:]:
                OWNERS[f[0]] = {"*"}
    for g in gens:
        g.write(gendir)
    return fails


if __name__ == "__main__":
    import sys
    f = run(sys.argv[1] if len(sys.argv) > 1 else "/repo", os.path.join(os.path.dirname(__file__), "..", "coq", "Gen"))
    for x in f:
        print("GUARD FAILED:", x)
